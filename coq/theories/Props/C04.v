(** C04 — operators bind by the documented precedence (partial: the proof that
    the parser realises the order — soundness/completeness w.r.t. the CST
    grammar of DESIGN.md 4.1 — is not machine-checked yet; trees are decided by
    correspondence with the implementation and with the reference parser).
    Statements only. *)
From JP Require Import Base Value Lexer Parser Gen.Tables Spec.TableSpec Proofs.PrattProof.

(** The binding-power table and the projection-stop threshold extracted from
    lexer.rs / parser.rs on this run have the documented order. Any change of
    the relative order of two operators breaks this obligation; an
    order-preserving renumbering does not. *)
Theorem C04_table_order : table_order_ok gen_lbp gen_projection_stop = true.
Proof. vm_compute. reflexivity. Qed.
Print Assumptions C04_table_order.

(** The documented table the reference parser runs on has the documented order too
    (so the two tables order every pair of tokens the same way). *)
Theorem C04_spec_table_order : table_order_ok spec_lbp spec_stop = true.
Proof. exact spec_table_order. Qed.
Print Assumptions C04_spec_table_order.

(** The Pratt invariant of the parser (code and reference, any table): an operand
    parsed in a context of binding power [rbp] extends over every following
    operator that binds tighter — what follows it does not bind tighter than [rbp]. *)
Theorem C04_operand_extends_maximally : forall L STOP strict f rbp st t st',
  expr L STOP strict f rbp st = Ok (t, st') -> L (peek st' 0) <= rbp.
Proof. exact expr_extends_maximally. Qed.
Print Assumptions C04_operand_extends_maximally.

(** An accepted expression is one complete operand of the weakest context followed by the end of the input. *)
Theorem C04_accepts_whole_input_only : forall L STOP strict fuel toks t,
  parse_tokens L STOP strict fuel toks = Ok t ->
  exists st', expr L STOP strict fuel 0 (mkPst toks 0) = Ok (t, st') /\ peek st' 0 = TEof.
Proof. exact parse_tokens_consumes_all. Qed.
Print Assumptions C04_accepts_whole_input_only.
