(** C04 — operators bind by the documented precedence (partial: the proof that
    the parser realises the order — soundness/completeness w.r.t. the CST
    grammar of DESIGN.md 4.1 — is not machine-checked yet; trees are decided by
    correspondence with the implementation and with the reference parser).
    Statements only. *)
From JP Require Import Base Gen.Tables Spec.TableSpec.

(** The binding-power table and the projection-stop threshold extracted from
    lexer.rs / parser.rs on this run have the documented order. Any change of
    the relative order of two operators breaks this obligation; an
    order-preserving renumbering does not. *)
Theorem C04_table_order : table_order_ok gen_lbp gen_projection_stop = true.
Proof. vm_compute. reflexivity. Qed.
Print Assumptions C04_table_order.

(** The documented table the reference parser runs on has the documented order too
    (so the two tables order every pair of tokens the same way). *)
Theorem C04_spec_table_order : table_order_ok spec_lbp spec_stop = true.
Proof. exact spec_table_order. Qed.
Print Assumptions C04_spec_table_order.
