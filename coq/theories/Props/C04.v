(** C04 — operators bind by the documented precedence.  The rules are stated on
    syntax trees with no reference to a parsing algorithm (Spec/Prec.v: every
    operand holds only tighter-binding operators at its top level;
    Spec/Disamb.v: every operand and projection extends exactly as far as the
    binding powers allow), for any table with the documented order; the parser
    (model of parser.rs over the tables generated from the code on this run)
    is proved to return only trees that respect the binding powers, and to
    return, for every tree that the rules dictate, exactly that tree — which
    the rules determine uniquely.  Partial: the one recorded deviation class of
    Spec/Disamb.v is excluded for the code; search results of parenthesised forms
    are decided by correspondence.  Statements only. *)
From JP Require Import Base Value Lexer Parser Gen.Tables Spec.TableSpec Spec.Grammar Spec.Prec Spec.Disamb
     Proofs.PrattProof Proofs.GrammarProof Proofs.CompleteProof Proofs.DisSoundProof Proofs.TableIso Proofs.AgreeProof.

(** The binding-power table and the projection-stop threshold extracted from
    lexer.rs / parser.rs on this run have the documented order. Any change of
    the relative order of two operators breaks this obligation; an
    order-preserving renumbering does not. *)
Theorem C04_table_order : table_order_ok gen_lbp gen_projection_stop = true.
Proof. vm_compute. reflexivity. Qed.
Print Assumptions C04_table_order.

(** The documented table the reference parser runs on has the documented order too
    (so the two tables order every pair of tokens the same way). *)
Theorem C04_spec_table_order : table_order_ok spec_lbp spec_stop = true.
Proof. exact spec_table_order. Qed.
Print Assumptions C04_spec_table_order.

(** The Pratt invariant of the parser (code and reference, any table): an operand
    parsed in a context of binding power [rbp] extends over every following
    operator that binds tighter — what follows it does not bind tighter than [rbp]. *)
Theorem C04_operand_extends_maximally : forall L STOP strict f rbp st t st',
  expr L STOP strict f rbp st = Ok (t, st') -> L (peek st' 0) <= rbp.
Proof. exact expr_extends_maximally. Qed.
Print Assumptions C04_operand_extends_maximally.

(** An accepted expression is one complete operand of the weakest context followed by the end of the input. *)
Theorem C04_accepts_whole_input_only : forall L STOP strict fuel toks t,
  parse_tokens L STOP strict fuel toks = Ok t ->
  exists st', expr L STOP strict fuel 0 (mkPst toks 0) = Ok (t, st') /\ peek st' 0 = TEof.
Proof. exact parse_tokens_consumes_all. Qed.
Print Assumptions C04_accepts_whole_input_only.

(** The tree the reference parser returns is the one the documented binding
    powers dictate: it is the abstract tree of a syntax tree of the expression in
    which every operand (right operand of a binary operator, operand of [!],
    right-hand side of a projection, what follows a dot, elements, arguments,
    predicates) has at its top level only operators that bind strictly tighter
    than the context it was read in ([prec], Spec/Prec.v, over the documented
    table) — with [C04_operand_extends_maximally] (no tighter operator is left
    unconsumed after an operand) this fixes the grouping of every pair of operators. *)
Theorem C04_reference_tree_respects_binding_powers : forall s t, ref_parse s = Ok t ->
  exists tokens c, tokenize s = Ok tokens /\ map snd tokens = flat c ++ [TEof] /\ erase c = t /\ wf c /\
                   prec (fun tk => spec_lbp (kind_of tk)) 0 c.
Proof. exact ref_parse_sound. Qed.
Print Assumptions C04_reference_tree_respects_binding_powers.

(** ... for any table, for the reference parser ([strict = true], trees of the
    grammar) and for the code's parser ([strict = false], trees of the extended
    language of C03) alike. *)
Theorem C04_tree_respects_binding_powers_any_table : forall L STOP strict fuel tokens t,
  parse_tokens L STOP strict fuel tokens = Ok t ->
  exists c rest, map snd tokens = flat c ++ rest /\ erase c = t /\ wfb (negb strict) c /\ prec L 0 c /\ hd TEof rest = TEof.
Proof. exact ref_parser_sound. Qed.
Print Assumptions C04_tree_respects_binding_powers_any_table.

(** In particular the code's own trees: every operand of the tree [compile]
    returns has only strictly tighter operators at its top level, over the table
    read from lexer.rs on this run. *)
Theorem C04_code_tree_respects_binding_powers : forall s t, parse s = Ok t ->
  exists tokens c, tokenize s = Ok tokens /\ map snd tokens = flat c ++ [TEof] /\ erase c = t /\ wfb true c /\ prec lbp 0 c.
Proof. exact code_parse_sound. Qed.
Print Assumptions C04_code_tree_respects_binding_powers.

(** The tree the rules dictate is the tree the code builds: for every syntax tree
    that respects the binding powers and extends its operands and projections
    maximally (outside the recorded deviation class), compiling its token
    sequence yields its abstract tree (offsets aside). *)
Theorem C04_code_builds_the_dictated_tree : forall s tl c, tokenize s = Ok tl -> map snd tl = flat c ++ [TEof] ->
  wf c -> prec lbp 0 c -> dis lbp gen_projection_stop false TEof c -> nodotlist c ->
  exists c', shape c' = shape c /\ parse s = Ok (erase c').
Proof. exact code_parser_complete. Qed.
Print Assumptions C04_code_builds_the_dictated_tree.

Theorem C04_reference_builds_the_dictated_tree : forall s tl c, tokenize s = Ok tl -> map snd tl = flat c ++ [TEof] ->
  wf c -> prec (fun t => spec_lbp (kind_of t)) 0 c -> dis (fun t => spec_lbp (kind_of t)) spec_stop false TEof c ->
  exists c', shape c' = shape c /\ ref_parse s = Ok (erase c').
Proof. exact ref_parser_complete. Qed.
Print Assumptions C04_reference_builds_the_dictated_tree.

(** The rules dictate one tree: for any table with the documented order, two
    trees of the same token sequence that both respect the binding powers and
    extend maximally have the same abstract tree. *)
Theorem C04_dictated_tree_is_unique : forall T STOP c1 c2, table_order_ok T STOP = true ->
  let L := fun t => T (kind_of t) in
  wf c1 -> prec L 0 c1 -> dis L STOP false TEof c1 -> wf c2 -> prec L 0 c2 -> dis L STOP false TEof c2 ->
  flat c1 = flat c2 -> unoff (erase c1) = unoff (erase c2).
Proof. exact disambiguated_grammar_unambiguous. Qed.
Print Assumptions C04_dictated_tree_is_unique.

(** The tree the reference parser returns extends every operand and projection
    maximally (Spec/Disamb.v) and respects the binding powers: it is the tree the rules dictate. *)
Theorem C04_reference_returns_the_dictated_tree : forall s t, ref_parse s = Ok t ->
  exists tokens c, tokenize s = Ok tokens /\ map snd tokens = flat c ++ [TEof] /\ erase c = t /\ wf c /\
                   prec (fun tk => spec_lbp (kind_of tk)) 0 c /\ dis (fun tk => spec_lbp (kind_of tk)) spec_stop false TEof c.
Proof. exact ref_parse_sound_dis. Qed.
Print Assumptions C04_reference_returns_the_dictated_tree.

(** ... and any dictated tree of the expression has the abstract tree the parser returned. *)
Theorem C04_returned_tree_is_the_dictated_one : forall s t tokens c, ref_parse s = Ok t -> tokenize s = Ok tokens -> map snd tokens = flat c ++ [TEof] ->
  wf c -> prec (fun tk => spec_lbp (kind_of tk)) 0 c -> dis (fun tk => spec_lbp (kind_of tk)) spec_stop false TEof c -> unoff t = unoff (erase c).
Proof. exact ref_parse_tree_determined. Qed.
Print Assumptions C04_returned_tree_is_the_dictated_one.

(** The code builds the reference parser's tree on every expression of the language outside the deviation class. *)
Theorem C04_code_builds_the_reference_tree : forall s t, ref_parse s = Ok t ->
  exists tokens c, tokenize s = Ok tokens /\ map snd tokens = flat c ++ [TEof] /\ erase c = t /\ wf c /\
    (nodotlist c -> exists t', parse s = Ok t' /\ unoff t' = unoff t).
Proof. exact code_agrees_with_reference. Qed.
Print Assumptions C04_code_builds_the_reference_tree.

(** Only the order of the binding powers matters, not the numbers. *)
Theorem C04_only_the_order_matters : forall T1 S1 T2 S2 c dp fol,
  table_order_ok T1 S1 = true -> table_order_ok T2 S2 = true ->
  prec (fun t => T1 (kind_of t)) 0 c -> dis (fun t => T1 (kind_of t)) S1 dp fol c ->
  prec (fun t => T2 (kind_of t)) 0 c /\ dis (fun t => T2 (kind_of t)) S2 dp fol c.
Proof. exact prec_dis_table_independent. Qed.
Print Assumptions C04_only_the_order_matters.

(** Non-vacuity and sharpness: [a || b && c] — the tree the rules dictate meets the
    hypotheses, the other association does not; likewise [!a.b] and [*.a.b]. *)
Example C04_rules_pick_one_association :
  let a := CIdent [97] in let b := CIdent [98] in let c := CIdent [99] in
  (prec lbp 0 (CBin BOr a (CBin BAnd b c)) /\ dis lbp gen_projection_stop false TEof (CBin BOr a (CBin BAnd b c))) /\
  ~ dis lbp gen_projection_stop false TEof (CBin BAnd (CBin BOr a b) c) /\
  ~ prec lbp 0 (CNot (CDot a b)) /\
  (prec lbp 0 (CDot (CNot a) b) /\ dis lbp gen_projection_stop false TEof (CDot (CNot a) b)) /\
  ~ dis lbp gen_projection_stop false TEof (CDot (CStarP (KDot a)) b) /\
  (prec lbp 0 (CStarP (KDot (CDot a b))) /\ dis lbp gen_projection_stop false TEof (CStarP (KDot (CDot a b)))).
Proof.
  cbn zeta. unfold prec, tighter. cbn. unfold lbp. cbn.
  repeat match goal with
         | |- _ /\ _ => split
         | |- True => exact I
         | |- Forall _ _ => constructor
         | |- _ = _ => reflexivity
         | |- _ <> _ => discriminate
         | |- tighter _ _ _ => unfold tighter; cbn
         | |- _ < _ => first [lia | vm_compute; reflexivity]
         | |- _ <= _ => first [lia | vm_compute; discriminate]
         | |- ~ _ => let H := fresh in intros H; unfold tighter in H; cbn in H;
                     repeat match goal with
                            | H : _ /\ _ |- _ => destruct H
                            | H : Forall _ (_ :: _) |- _ => inversion H; clear H; subst
                            end; try lia;
                     match goal with H : _ <= _ |- _ => vm_compute in H; apply H; reflexivity | H : _ < _ |- _ => vm_compute in H; discriminate H end
         end.
Qed.
