(** C01 — search results conform to the JMESPath specification (core forms).
    Statements only. [eval] is the denotational semantics of Spec/Semantics.v;
    [interp] the transcription of interpreter.rs. *)
From Coq Require Import Sorting.Sorted.
From JP Require Import Base F64 Value Interp Spec.SliceSpec Spec.Semantics
     Proofs.ObjFacts Proofs.InterpProof Proofs.SemanticsFacts.

(** For every core tree (any nesting), every document, every registry and every
    incoming context offset, the interpreter returns exactly the specified value
    (or the specified invalid-slice error) and leaves the offset alone.  The
    only escape is [Unmodelled]: slicing an array of 2^31 or more elements. *)
Theorem C01_conformance : forall n rt e d o,
  core e = true -> (height e <= n)%nat ->
  interp n rt d e o = Unmodelled \/ interp n rt d e o = lift (eval e d) o.
Proof. exact conformance. Qed.
Print Assumptions C01_conformance.

Theorem C01_search : forall n rt e d, core e = true -> (height e <= n)%nat ->
  search_ast n rt e d = Unmodelled \/ search_ast n rt e d = eval e d.
Proof. exact search_conformance. Qed.
Print Assumptions C01_search.

(** null for absent or wrongly-typed subjects *)
Theorem C01_field_on_non_object : forall k d, (forall o, d <> VObj o) -> eval (AField k) d = Ok VNull.
Proof. exact field_absent_null. Qed.
Print Assumptions C01_field_on_non_object.
Theorem C01_field_missing : forall k o, obj_get o k = None -> eval (AField k) (VObj o) = Ok VNull.
Proof. exact field_missing_null. Qed.
Print Assumptions C01_field_missing.
Theorem C01_field_present : forall k o v, obj_get o k = Some v -> eval (AField k) (VObj o) = Ok v.
Proof. exact field_present. Qed.
Print Assumptions C01_field_present.
Theorem C01_index_on_non_array : forall i d, (forall a, d <> VArr a) -> eval (AIndex i) d = Ok VNull.
Proof. exact index_non_array_null. Qed.
Print Assumptions C01_index_on_non_array.
Theorem C01_projection_on_non_array : forall l r d v, eval l d = Ok v -> (forall a, v <> VArr a) -> eval (AProjection l r) d = Ok VNull.
Proof. exact wildcard_non_array_null. Qed.
Print Assumptions C01_projection_on_non_array.
Theorem C01_flatten_on_non_array : forall x d v, eval x d = Ok v -> (forall a, v <> VArr a) -> eval (AFlatten x) d = Ok VNull.
Proof. exact flatten_non_array_null. Qed.
Print Assumptions C01_flatten_on_non_array.
Theorem C01_values_on_non_object : forall x d v, eval x d = Ok v -> (forall o, v <> VObj o) -> eval (AObjectValues x) d = Ok VNull.
Proof. exact values_non_object_null. Qed.
Print Assumptions C01_values_on_non_object.
Theorem C01_slice_on_non_array : forall off a b c d, c <> 0 -> (forall l, d <> VArr l) -> eval (ASlice off a b c) d = Ok VNull.
Proof. exact slice_non_array_spec. Qed.
Print Assumptions C01_slice_on_non_array.

(** nulls dropped from projections; elements in order *)
Theorem C01_projection_pointwise : forall l r d a xs, eval l d = Ok (VArr a) -> mapM (eval r) a = Ok xs ->
  eval (AProjection l r) d = Ok (VArr (filter non_null xs)).
Proof. exact projection_pointwise. Qed.
Print Assumptions C01_projection_pointwise.
Theorem C01_projection_has_no_nulls : forall l r d out, eval (AProjection l r) d = Ok (VArr out) -> Forall (fun v => v <> VNull) out.
Proof. exact projection_no_nulls. Qed.
Print Assumptions C01_projection_has_no_nulls.

(** one-level flatten *)
Theorem C01_flatten_one_level : forall x d a, eval x d = Ok (VArr a) -> eval (AFlatten x) d = Ok (VArr (concat (map elements a))).
Proof. exact flatten_one_level. Qed.
Print Assumptions C01_flatten_one_level.
Theorem C01_flatten_not_recursive : forall inner, eval (AFlatten AIdentity) (VArr [VArr [VArr inner]]) = Ok (VArr [VArr inner]).
Proof. exact flatten_not_recursive. Qed.
Print Assumptions C01_flatten_not_recursive.

(** short-circuit and/or: the right operand is not consulted (even one that fails) *)
Theorem C01_or_short_circuit : forall l r d x, eval l d = Ok x -> truthy x = true -> eval (AOr l r) d = Ok x.
Proof. exact or_short_circuit. Qed.
Print Assumptions C01_or_short_circuit.
Theorem C01_or_falls_through : forall l r d x, eval l d = Ok x -> truthy x = false -> eval (AOr l r) d = eval r d.
Proof. exact or_falls_through. Qed.
Print Assumptions C01_or_falls_through.
Theorem C01_and_short_circuit : forall l r d x, eval l d = Ok x -> truthy x = false -> eval (AAnd l r) d = Ok x.
Proof. exact and_short_circuit. Qed.
Print Assumptions C01_and_short_circuit.
Theorem C01_and_falls_through : forall l r d x, eval l d = Ok x -> truthy x = true -> eval (AAnd l r) d = eval r d.
Proof. exact and_falls_through. Qed.
Print Assumptions C01_and_falls_through.

(** truthiness with 0 truthy *)
Theorem C01_truthiness_table : forall v,
  truthy v = match v with
             | VNull | VBool false | VStr [] | VArr [] | VObj [] | VExpref _ => false
             | _ => true
             end.
Proof. exact truthiness_table. Qed.
Print Assumptions C01_truthiness_table.
Theorem C01_zero_is_truthy : truthy (VNum (PosInt 0)) = true.
Proof. exact zero_is_truthy. Qed.
Print Assumptions C01_zero_is_truthy.

(** multi-select on null is null *)
Theorem C01_multilist_on_null : forall es, eval (AMultiList es) VNull = Ok VNull.
Proof. exact multilist_null. Qed.
Print Assumptions C01_multilist_on_null.
Theorem C01_multihash_on_null : forall kvs, eval (AMultiHash kvs) VNull = Ok VNull.
Proof. exact multihash_null. Qed.
Print Assumptions C01_multihash_on_null.

(** object members are visited in ascending key order; constructed objects keep it *)
Theorem C01_object_values_in_key_order : forall o, eval (AObjectValues AIdentity) (VObj o) = Ok (VArr (map snd o)).
Proof. exact object_values_in_key_order. Qed.
Print Assumptions C01_object_values_in_key_order.
Theorem C01_constructed_objects_sorted : forall kvs o, record kvs = VObj o -> StronglySorted key_lt o.
Proof. exact record_sorted. Qed.
Print Assumptions C01_constructed_objects_sorted.
Theorem C01_constructed_objects_last_wins : forall kvs o k, record kvs = VObj o -> obj_get o k = last_binding kvs k.
Proof. exact record_last_wins. Qed.
Print Assumptions C01_constructed_objects_last_wins.
Theorem C01_insert_keeps_order : forall (o : list (str * value)) k v, StronglySorted key_lt o -> StronglySorted key_lt (obj_insert o k v).
Proof. exact (@obj_insert_sorted value). Qed.
Print Assumptions C01_insert_keeps_order.

(** Non-vacuity: a nested projection over a heterogeneous document. *)
Example C01_example :
  let d := VObj [([97], VArr [VObj [([98], VNum (PosInt 1))]; VObj []; VNum (PosInt 0); VObj [([98], VNull)]])] in
  let e := AProjection (AField [97]) (AField [98]) in
  core e = true /\ interp 5 [] d e 0 = Ok (VArr [VNum (PosInt 1)], 0) /\ eval e d = Ok (VArr [VNum (PosInt 1)]).
Proof. vm_compute. repeat split; reflexivity. Qed.
