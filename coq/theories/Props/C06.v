(** C06 — built-in functions enforce their signatures.  Statements only. *)
From JP Require Import Base F64 Value Sig Functions Interp Gen.Tables Spec.SigSpec Proofs.CmpProof Proofs.SigProof Proofs.CallProof Proofs.SigE2E Proofs.ResultTypeProof.

(** The registration list extracted from the source on this run is the
    specification's table: the 26 names, each bound to a struct whose declared
    parameter types and variadic tail mean the specified types. *)
Theorem C06_signature_table : registry_matches gen_registry = true.
Proof. vm_compute. reflexivity. Qed.
Print Assumptions C06_signature_table.

Theorem C06_type_equivalence_sound : forall a b, stype_equiv a b = true -> forall v, has_stype a v = has_stype b v.
Proof. exact stype_equiv_sound. Qed.
Print Assumptions C06_type_equivalence_sound.

(** The code's parameter types accept exactly the values of the specified type
    (arrays "whose elements are uniformly of the required type", unions as any
    member) on every value without an expression reference in a data position. *)
Theorem C06_is_valid_meaning : forall t v, no_expref v = true -> is_valid t v = has_stype (stype_of t) v.
Proof. exact is_valid_stype. Qed.
Print Assumptions C06_is_valid_meaning.

(** Deviation D10 (known finding): the code's [any] also admits expression references. *)
Theorem C06_any_admits_expref_refuted : exists v, is_valid TyAny v = true /\ has_stype (stype_of TyAny) v = false.
Proof. exact is_valid_any_refuted. Qed.
Print Assumptions C06_any_admits_expref_refuted.

(** Signature checking is the declarative decision: arity first (not-enough /
    too-many with expected and actual counts), then the first ill-typed position
    from the left (invalid-type with expected type, actual type, position); the
    variadic tail type applies to every extra argument. *)
Theorem C06_validate_decision : forall sg args off, validate sg args off = validate_spec sg args off.
Proof. exact validate_decision. Qed.
Print Assumptions C06_validate_decision.

Theorem C06_not_enough : forall sg args off, zlen args < zlen (sig_inputs sg) ->
  validate sg args off = Err (ERuntime (KNotEnough (zlen (sig_inputs sg)) (zlen args)) off).
Proof. exact arity_checked_first. Qed.
Print Assumptions C06_not_enough.

Theorem C06_too_many : forall sg args off, sig_variadic sg = None -> zlen (sig_inputs sg) < zlen args ->
  validate sg args off = Err (ERuntime (KTooMany (zlen (sig_inputs sg)) (zlen args)) off).
Proof. exact too_many_rejected. Qed.
Print Assumptions C06_too_many.

(** Conversely: the check passes exactly when the count fits and no position is ill-typed. *)
Theorem C06_validate_ok_iff : forall sg args off,
  validate sg args off = Ok tt <->
  (zlen (sig_inputs sg) <= zlen args /\ (sig_variadic sg = None -> zlen args = zlen (sig_inputs sg)) /\ first_bad sg args 0 = None).
Proof. exact validate_ok_iff. Qed.
Print Assumptions C06_validate_ok_iff.

Theorem C06_first_bad_none_iff : forall sg args k,
  first_bad sg args k = None <->
  forall i v, nth_error args i = Some v ->
    match param_type sg (k + i) with Some t => is_valid t v = true | None => True end \/
    exists j, (j < i)%nat /\ param_type sg (k + j) = None.
Proof. exact first_bad_none_iff. Qed.
Print Assumptions C06_first_bad_none_iff.

(** End to end: for every function of the registration list read from the source
    on this run, the code's check of a call IS the specification's verdict on that
    name, read from the specification's table alone — accepted, not enough / too
    many arguments with the expected and actual counts, or the position of the
    first ill-typed argument — for all argument lists in which an expression
    reference only appears where the declared type does not mention [any] (the
    known finding above). *)
Theorem C06_call_check_is_specified_verdict : forall name strct sg args off,
  In (name, strct, sg) gen_registry ->
  args_compat (sig_inputs sg) (sig_variadic sg) args ->
  verdict (validate sg args off) = Some (spec_verdict name args).
Proof. intros name strct sg args off. apply registry_call_is_spec_verdict. exact C06_signature_table. Qed.
Print Assumptions C06_call_check_is_specified_verdict.

(** Every builtin checks its signature before anything else ... *)
Theorem C06_call_validates_first : forall ev b sg args off e,
  validate sg args off = Err e -> call_builtin ev b sg args off = Err e.
Proof. exact call_validates_first. Qed.
Print Assumptions C06_call_validates_first.

(** ... and a call that passes the check never fails with an arity, argument
    type or unknown-function error of its own: such an error can only come out
    of a nested call evaluated inside an expression-reference argument. Holds for
    all 26 builtins and every argument list. *)
Theorem C06_no_signature_error_after_validation : forall ev b sg args off,
  ev_clean ev -> validate sg args off = Ok tt -> sig_error (call_builtin ev b sg args off) = false.
Proof. exact no_sig_error_after_validation. Qed.
Print Assumptions C06_no_signature_error_after_validation.

(** The result of an accepted call has the function's declared result type: for each of the 26
    built-ins, whenever the specification's table accepts the arguments (which hold no
    expression references inside their data, and the evaluator handed to the by-functions
    returns data), the value returned is of the type in the third column of that table —
    for all arguments, evaluators and offsets. *)
Theorem C06_result_has_declared_type : forall ev b sg args off r o,
  ev_data ev -> Forall data_arg args -> spec_verdict (name_of b) args = SVAccept ->
  call_builtin ev b sg args off = Ok (r, o) ->
  match obj_get spec_table (name_of b) with Some ss => has_stype (s_result ss) r | None => false end = true.
Proof. exact builtin_result_type. Qed.
Print Assumptions C06_result_has_declared_type.

(** ... where [name_of] is the name under which the generated registration list binds that implementation. *)
Theorem C06_registered_under_their_specification_names :
  forallb (fun '(name, st, sg) => match obj_get struct_table st with Some b => str_eqb (name_of b) name | None => false end) gen_registry = true.
Proof. exact registry_names. Qed.
Print Assumptions C06_registered_under_their_specification_names.

(** Calling an unregistered name is the unknown-function error at the call's offset. *)
Theorem C06_unknown_function : forall n rt d off name args o vs o1,
  eval_list (fun e o' => interp n rt d e o') args [] o = Ok (vs, o1) -> rt_get rt name = None ->
  interp (S n) rt d (AFunction off name args) o = Err (ERuntime (KUnknownFunction name) off).
Proof. exact unknown_function. Qed.
Print Assumptions C06_unknown_function.

Example C06_example :
  validate (mkSig [TyNumber] None) [VStr [97]] 7 = Err (ERuntime (KInvalidType (type_name TNumber) (type_name TString) 0) 7) /\
  validate (mkSig [TyObject] (Some TyObject)) [VObj []; VObj []; VNum (PosInt 1)] 0 =
    Err (ERuntime (KInvalidType (type_name TObject) (type_name TNumber) 2) 0).
Proof. vm_compute. split; reflexivity. Qed.
