(** C08 — JSON data passes through unchanged (partial: text-level number
    reading/printing is serde_json's and zmij's, modelled and validated by
    correspondence with an independent oracle; see DESIGN.md).  Statements only. *)
From Coq Require Import Sorting.Sorted.
From JP Require Import Base F64 Value Interp Serde Proofs.ObjFacts Proofs.SerdeProof.

(** The identity query returns the document itself. *)
Theorem C08_identity : forall n rt d o, interp (S n) rt d AIdentity o = Ok (d, o).
Proof. reflexivity. Qed.
Print Assumptions C08_identity.

(** Objects are built by insertion: keys stay in order, and the last duplicate wins. *)
Theorem C08_insert_keeps_order : forall (o : list (str * value)) k v, StronglySorted key_lt o -> StronglySorted key_lt (obj_insert o k v).
Proof. exact (@obj_insert_sorted value). Qed.
Print Assumptions C08_insert_keeps_order.
Theorem C08_last_duplicate_wins : forall (kvs : list (str * value)) acc k,
  obj_get (fold_left (fun m kv => obj_insert m (fst kv) (snd kv)) kvs acc) k =
    match last_binding kvs k with Some v => Some v | None => obj_get acc k end.
Proof. exact (@fold_insert_get value). Qed.
Print Assumptions C08_last_duplicate_wins.

(** Conversion to and from the generic value type is lossless: a library value
    handed to the serializer comes back unchanged (integers keep their exact
    value, floats their bits, strings every code point, nesting and order). *)
Theorem C08_value_round_trip : forall v, wf_json v = true -> ser_var (sval_of_value v) = SOk v.
Proof. exact conv_value_identity. Qed.
Print Assumptions C08_value_round_trip.
