(** C08 — JSON data passes through unchanged (partial: the text-level reading
    and printing of floating-point numerals is serde_json's and zmij's, modelled
    and validated by correspondence with an independent oracle; everything else
    — integers of the 64-bit ranges, strings, nesting, key order, the text round
    trip of float-free values — is proved on the model).  Statements only. *)
From Coq Require Import Sorting.Sorted.
From JP Require Import Base F64 Value JsonRead JsonPrint Interp Serde Proofs.ObjFacts Proofs.SerdeProof Proofs.IntProof Proofs.JsonRoundProof.

(** The identity query returns the document itself. *)
Theorem C08_identity : forall n rt d o, interp (S n) rt d AIdentity o = Ok (d, o).
Proof. reflexivity. Qed.
Print Assumptions C08_identity.

(** Objects are built by insertion: keys stay in order, and the last duplicate wins. *)
Theorem C08_insert_keeps_order : forall (o : list (str * value)) k v, StronglySorted key_lt o -> StronglySorted key_lt (obj_insert o k v).
Proof. exact (@obj_insert_sorted value). Qed.
Print Assumptions C08_insert_keeps_order.
Theorem C08_last_duplicate_wins : forall (kvs : list (str * value)) acc k,
  obj_get (fold_left (fun m kv => obj_insert m (fst kv) (snd kv)) kvs acc) k =
    match last_binding kvs k with Some v => Some v | None => obj_get acc k end.
Proof. exact (@fold_insert_get value). Qed.
Print Assumptions C08_last_duplicate_wins.

(** Conversion to and from the generic value type is lossless: a library value
    handed to the serializer comes back unchanged (integers keep their exact
    value, floats their bits, strings every code point, nesting and order). *)
Theorem C08_value_round_trip : forall v, wf_json v = true -> ser_var (sval_of_value v) = SOk v.
Proof. exact conv_value_identity. Qed.
Print Assumptions C08_value_round_trip.

(** Every integer of the unsigned 64-bit range keeps its exact value and its
    integer spelling: the printer writes its canonical digits and the reader reads
    exactly that integer back ... *)
Theorem C08_unsigned_integers_exact : forall z, 0 <= z <= u64_max ->
  print_json (VNum (PosInt z)) = Ok (digits_of z) /\ from_json (digits_of z) = Ok (Some (VNum (PosInt z))).
Proof. exact unsigned_roundtrip. Qed.
Print Assumptions C08_unsigned_integers_exact.

(** ... and every negative integer of the signed 64-bit range. *)
Theorem C08_negative_integers_exact : forall z, i64_min <= z < 0 ->
  print_json (VNum (NegInt z)) = Ok (45 :: digits_of (- z)) /\ from_json (45 :: digits_of (- z)) = Ok (Some (VNum (NegInt z))).
Proof. exact negative_roundtrip. Qed.
Print Assumptions C08_negative_integers_exact.

Theorem C08_digits_are_canonical : forall z, 0 <= z -> canonical (digits_of z) z.
Proof. exact digits_of_canonical. Qed.
Print Assumptions C08_digits_are_canonical.

(** Printing a value and re-parsing the text yields the value — for every value
    without floating-point numbers (integers in range, strings over all code
    points, booleans, null, arrays, objects with keys in map order), nested at most
    127 levels deep (the reader's limit). *)
Theorem C08_print_then_parse : forall v d, plain d v -> (d <= 127)%nat ->
  exists text, print_json v = Ok text /\ from_json text = Ok (Some v).
Proof. exact json_text_round_trip. Qed.
Print Assumptions C08_print_then_parse.

Example C08_plain_example :
  plain 2 (VObj [([97], VArr [VNum (PosInt 18446744073709551615); VNum (NegInt (-9223372036854775808)); VStr [34; 92; 10; 128512]; VNull]); ([98], VObj [])]).
Proof.
  apply plain_obj. split.
  - repeat constructor.
  - repeat constructor; cbn; try lia; try (unfold u64_max, i64_min; lia).
Qed.
