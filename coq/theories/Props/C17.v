(** C17 — cargo features change representation, not meaning (partial: "sync
    swaps Rc for Arc" and the four builds are decided by running them; the
    conversion clause is a theorem).  Statements only. *)
From Coq Require Import Floats.SpecFloat.
From JP Require Import Base F64 Value Serde Run Proofs.SerdeProof Proofs.FeatureProof.

(** The specialised fast-path conversions of lib.rs:190-357 produce the same
    value as the generic serde path, for every JSON-representable input of the
    specially handled types (JSON values, library values, strings, integers of
    every width, floats, booleans, unit). *)
Theorem C17_conversions_agree : forall i, json_representable i = true -> conv_special i = conv_generic i.
Proof. exact conv_agree. Qed.
Print Assumptions C17_conversions_agree.

(** Searching a typed input gives the same outcome (value, or error, or refusal of the input) in a build with the
    [specialized] feature as in one without: for every expression text and every JSON-representable input. *)
Theorem C17_search_outcome_feature_independent : forall text i, json_representable i = true ->
  search_input true text i = search_input false text i.
Proof. exact search_input_feature_independent. Qed.
Print Assumptions C17_search_outcome_feature_independent.

(** Recorded deviation outside the quantifier (non-finite floats are not JSON-representable). *)
Theorem C17_non_finite_refuted : conv_special (IF64 S754_nan) = SErr /\ conv_generic (IF64 S754_nan) = SOk VNull.
Proof. exact conv_non_finite_refuted. Qed.
Print Assumptions C17_non_finite_refuted.

Example C17_example :
  json_representable (IInt 18446744073709551615) = true /\
  conv_special (IInt 18446744073709551615) = SOk (VNum (PosInt 18446744073709551615)) /\
  conv_generic (IJson (VObj [([97], VNum (NegInt (-1)))])) = SOk (VObj [([97], VNum (NegInt (-1)))]).
Proof. vm_compute. repeat split; reflexivity. Qed.
