(** C18 — the jp tool reports exactly what the library computes (partial: clap's
    argument parsing, EPIPE and exotic file-system errors are not modelled).
    Statements only; [jp] is the model of jmespath-cli/src/main.rs. *)
From JP Require Import Base F64 Value JsonRead JsonPrint Interp Lexer Parser Cli Proofs.CliProof.

(** Success: exit 0, the pretty-printed JSON of the library's result followed by
    a newline (the raw string and a newline with --unquoted on a string result), nothing on stderr. *)
Theorem C18_success : forall u text json a doc v,
  parse text = Ok a -> from_json json = Ok (Some doc) -> lib_search a doc = Ok v ->
  jp u false (Some text) (Some json) =
    (0,
     match v with
     | VStr s => if u then Ok (Some (OutText (s ++ [10]))) else (let* t := print_pretty 0 v in Ok (Some (OutText (t ++ [10]))))
     | _ => let* t := print_pretty 0 v in Ok (Some (OutText (t ++ [10])))
     end, false).
Proof. exact jp_success. Qed.
Print Assumptions C18_success.

Theorem C18_unquoted_only_affects_strings : forall text json a doc v,
  parse text = Ok a -> from_json json = Ok (Some doc) -> lib_search a doc = Ok v -> (forall s, v <> VStr s) ->
  jp true false (Some text) (Some json) = jp false false (Some text) (Some json).
Proof. exact jp_unquoted_only_strings. Qed.
Print Assumptions C18_unquoted_only_affects_strings.

(** --ast prints the tree and never looks at the input. *)
Theorem C18_ast_reads_no_input : forall u text a i1 i2,
  parse text = Ok a -> jp u true (Some text) i1 = jp u true (Some text) i2 /\ jp u true (Some text) i1 = (0, Ok (Some OutAstDump), false).
Proof. exact jp_ast_reads_no_input. Qed.
Print Assumptions C18_ast_reads_no_input.

(** Every failure: diagnosis on stderr, nothing on stdout, exit 1. *)
Theorem C18_bad_expression : forall u a_flag text e input, parse text = Err e -> failed (jp u a_flag (Some text) input).
Proof. exact jp_bad_expression. Qed.
Print Assumptions C18_bad_expression.
Theorem C18_unreadable_expression_file : forall u a_flag input, failed (jp u a_flag None input).
Proof. exact jp_unreadable_expression. Qed.
Print Assumptions C18_unreadable_expression_file.
Theorem C18_unreadable_input : forall u text a, parse text = Ok a -> failed (jp u false (Some text) None).
Proof. exact jp_unreadable_input. Qed.
Print Assumptions C18_unreadable_input.
Theorem C18_bad_json : forall u text a json, parse text = Ok a -> from_json json = Ok None -> failed (jp u false (Some text) (Some json)).
Proof. exact jp_bad_json. Qed.
Print Assumptions C18_bad_json.
Theorem C18_runtime_error : forall u text a json doc e,
  parse text = Ok a -> from_json json = Ok (Some doc) -> lib_search a doc = Err e -> failed (jp u false (Some text) (Some json)).
Proof. exact jp_runtime_error. Qed.
Print Assumptions C18_runtime_error.

Example C18_example :
  jp true false (Some [97]) (Some [123;34;97;34;58;34;120;34;125]) = (0, Ok (Some (OutText [120; 10])), false) /\
  jp false false (Some [97]) (Some [123;34;97;34;58;91;49;93;125]) = (0, Ok (Some (OutText [91;10;32;32;49;10;93;10])), false).
Proof. vm_compute. split; reflexivity. Qed.
