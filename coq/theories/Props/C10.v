(** C10 — equality and ordering operators obey their algebraic contract.
    Statements only; [compare_values] is the model of [Variable::compare],
    [var_eq] of [PartialEq for Variable], [float_eq] of variable.rs:70-85. *)
From Coq Require Import Floats.SpecFloat.
From JP Require Import Base F64 Value Proofs.CmpProof Proofs.NumOkProof.

(** '==' is deep structural equality: numbers by (tolerant) numeric value of
    their doubles, arrays element-wise in order, objects by keys and members,
    values of different types never equal. *)
Theorem C10_eq_numbers : forall x y, var_eq (VNum x) (VNum y) = float_eq (as_f64 x) (as_f64 y).
Proof. exact eq_numbers. Qed.
Print Assumptions C10_eq_numbers.
Theorem C10_eq_arrays : forall x y, var_eq (VArr x) (VArr y) = list_eqb var_eq x y.
Proof. exact eq_arrays. Qed.
Print Assumptions C10_eq_arrays.
Theorem C10_eq_objects : forall x y,
  var_eq (VObj x) (VObj y) = list_eqb (fun a b => str_eqb (fst a) (fst b) && var_eq (snd a) (snd b)) x y.
Proof. exact eq_objects. Qed.
Print Assumptions C10_eq_objects.
Theorem C10_eq_type_gated : forall a b, get_type a <> get_type b -> var_eq a b = false.
Proof. exact eq_type_gated. Qed.
Print Assumptions C10_eq_type_gated.

(** reflexive (on values whose numbers convert to finite doubles: every JSON number) and symmetric *)
Theorem C10_eq_reflexive : forall v, nums_ok v = true -> compare_values CEq v v = Some true.
Proof. intros v H. cbn. now rewrite var_eq_refl. Qed.
Print Assumptions C10_eq_reflexive.
Theorem C10_eq_symmetric : forall a b, no_expref a = true -> compare_values CEq a b = compare_values CEq b a.
Proof. intros a b H. cbn. now rewrite var_eq_sym. Qed.
Print Assumptions C10_eq_symmetric.
Theorem C10_float_eq_symmetric : forall a b, float_eq a b = float_eq b a.
Proof. exact float_eq_sym. Qed.
Print Assumptions C10_float_eq_symmetric.

(** '!=' is always the negation of '==' *)
Theorem C10_ne_is_negation : forall a b, compare_values CNe a b = option_map negb (compare_values CEq a b).
Proof. exact ne_is_negation. Qed.
Print Assumptions C10_ne_is_negation.

(** ordering operators yield a boolean exactly when both operands are numbers, null otherwise *)
Theorem C10_ordering_defined_iff_both_numbers : forall c a b, is_ordering c = true ->
  (exists r, compare_values c a b = Some r) <-> both_numbers a b = true.
Proof. exact ordering_defined_iff_both_numbers. Qed.
Print Assumptions C10_ordering_defined_iff_both_numbers.
Theorem C10_ordering_null_otherwise : forall c a b, is_ordering c = true -> both_numbers a b = false -> compare_values c a b = None.
Proof. exact ordering_null_otherwise. Qed.
Print Assumptions C10_ordering_null_otherwise.

(** consistent with numeric order: all four are read off one exact IEEE comparison of the doubles *)
Theorem C10_ordering_is_numeric : forall x y,
  f_is_finite (as_f64 x) = true -> f_is_finite (as_f64 y) = true ->
  exists c, fcompare (as_f64 x) (as_f64 y) = Some c /\
    compare_values CLt (VNum x) (VNum y) = Some (match c with Lt => true | _ => false end) /\
    compare_values CGt (VNum x) (VNum y) = Some (match c with Gt => true | _ => false end) /\
    compare_values CLe (VNum x) (VNum y) = Some (match c with Gt => false | _ => true end) /\
    compare_values CGe (VNum x) (VNum y) = Some (match c with Lt => false | _ => true end).
Proof. exact ordering_is_numeric. Qed.
Print Assumptions C10_ordering_is_numeric.

(** exactly one of a<b, a==b, a>b for well-separated numbers; a<=b iff a<b or a==b *)
Theorem C10_trichotomy : forall x y,
  f_is_finite (as_f64 x) = true -> f_is_finite (as_f64 y) = true -> separated x y ->
  (b2n (compare_values CLt (VNum x) (VNum y)) + b2n (compare_values CEq (VNum x) (VNum y)) +
   b2n (compare_values CGt (VNum x) (VNum y)) = 1)%nat.
Proof. exact trichotomy. Qed.
Print Assumptions C10_trichotomy.
Theorem C10_le_decomposition : forall x y,
  f_is_finite (as_f64 x) = true -> f_is_finite (as_f64 y) = true -> separated x y ->
  compare_values CLe (VNum x) (VNum y) =
    Some (orb (match compare_values CLt (VNum x) (VNum y) with Some true => true | _ => false end)
              (match compare_values CEq (VNum x) (VNum y) with Some true => true | _ => false end)).
Proof. exact le_decomposition. Qed.
Print Assumptions C10_le_decomposition.
Theorem C10_le_exact : forall x y,
  f_is_finite (as_f64 x) = true -> f_is_finite (as_f64 y) = true ->
  compare_values CLe (VNum x) (VNum y) =
    Some (orb (match compare_values CLt (VNum x) (VNum y) with Some true => true | _ => false end)
              (feqb (as_f64 x) (as_f64 y))).
Proof. exact le_exact. Qed.
Print Assumptions C10_le_exact.

(** the internal total order ("different types are Equal") never reaches an operator *)
Theorem C10_internal_order_does_not_leak : forall c a b, get_type a <> get_type b ->
  compare_values c a b = match c with CEq => Some false | CNe => Some true | _ => None end.
Proof. exact internal_order_does_not_leak. Qed.
Print Assumptions C10_internal_order_does_not_leak.

(** The finiteness premises above hold for every integer of the unsigned and signed 64-bit
    ranges (what [serde_json::Number] can hold as an integer): its double is finite. *)
Theorem C10_64bit_integers_convert_to_finite_doubles : forall z, - 2 ^ 63 <= z < 2 ^ 64 ->
  f_is_finite (as_f64 (PosInt z)) = true /\ f_is_finite (as_f64 (NegInt z)) = true.
Proof. exact int64_as_f64_finite. Qed.
Print Assumptions C10_64bit_integers_convert_to_finite_doubles.

(** Non-vacuity and the documented tolerance zone: 1 == 1.0; the extremes of the
    integer range convert to finite doubles; 0.7100000000000002 == 0.71 is true
    (not well-separated), so trichotomy's hypothesis is needed there. *)
Example C10_examples :
  compare_values CEq (VNum (PosInt 1)) (VNum (Flt (f_of_Z 1))) = Some true /\
  num_ok (PosInt 18446744073709551615) = true /\ num_ok (NegInt (-9223372036854775808)) = true /\
  compare_values CEq (VNum (Flt (f_of_bits 4604570190193735353))) (VNum (Flt (f_of_bits 4604570190193735352))) = Some true /\
  compare_values CLt (VNum (Flt (f_of_bits 4604570190193735352))) (VNum (Flt (f_of_bits 4604570190193735353))) = Some true /\
  compare_values CLt (VNum (PosInt 1)) (VStr [97]) = None.
Proof. vm_compute. repeat split; reflexivity. Qed.
