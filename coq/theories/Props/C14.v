(** C14 — serde bridge: the encoding half against serde_json's serializer, the decoding half as
    the round trip through the library (the agreement of the decoder with serde_json's on every
    input is decided by correspondence; see DESIGN.md).  Statements only. *)
From Coq Require Import ZArith.
From JP Require Import Base F64 Value Serde Decode Proofs.SerdeProof Proofs.DecodeProof Proofs.DecodeMapProof Proofs.DecodeTypeProof.
Open Scope Z_scope.

(** Converting a typed value for searching ([ser_var]: the library's
    Serializer, method by method) produces exactly the JSON value that
    serde_json's Value serializer produces ([ser_json]) for every value of
    serde's data model with string-keyed maps: all integer widths, floats with
    non-finite mapped to null, chars, bytes, options, unit forms, the four enum
    variant shapes, tuples, sequences, maps (last duplicate key wins), structs,
    nested arbitrarily. *)
Theorem C14_serialize_as_json_image : forall v, string_keyed v = true -> ser_var v = ser_json v.
Proof. exact ser_agree. Qed.
Print Assumptions C14_serialize_as_json_image.

Theorem C14_non_finite_is_null : forall f, f_is_finite f = false -> ser_var (SF64 f) = SOk VNull /\ ser_var (SF32 f) = SOk VNull.
Proof. exact ser_non_finite_is_null. Qed.
Print Assumptions C14_non_finite_is_null.

Theorem C14_variant_shapes : forall n x y l ys fs m,
  ser_var (SUnitVariant n) = SOk (VStr n) /\
  (ser_var x = SOk y -> ser_var (SNewtypeVariant n x) = SOk (VObj [(n, y)])) /\
  (ser_var (SSeq l) = SOk (VArr ys) -> ser_var (STupleVariant n l) = SOk (VObj [(n, VArr ys)])) /\
  (ser_var (SStruct fs) = SOk (VObj m) -> ser_var (SStructVariant n fs) = SOk (VObj [(n, VObj m)])).
Proof. exact ser_variant_shapes. Qed.
Print Assumptions C14_variant_shapes.

(** A library value survives the trip through the serializer unchanged. *)
Theorem C14_value_round_trip : forall v, wf_json v = true -> ser_var (sval_of_value v) = SOk v.
Proof. exact conv_value_identity. Qed.
Print Assumptions C14_value_round_trip.

Example C14_example :
  ser_var (SStructVariant [68] [([112], SF64 (f_of_Z 1)); ([113], SBytes [1; 2])]) =
    SOk (VObj [([68], VObj [([112], VNum (Flt (f_of_Z 1))); ([113], VArr [VNum (PosInt 1); VNum (PosInt 2)])])]) /\
  ser_var (SMap [(SInt 1, SUnit)]) = SErr /\ ser_json (SMap [(SInt 1, SUnit)]) = SOk (VObj [([49], VNull)]).
Proof. vm_compute. repeat split; reflexivity. Qed.

(** ---- the decoding half ([Decode.de]: [impl Deserializer for Variable] driven by serde's visitors;
    tied to the library and to serde_json by the [dex] correspondence lines) ---- *)

(** A typed value survives the trip through the library unchanged: for every type description
    [t] (primitives of every width, options, sequences, tuples, unit/newtype/tuple/named structs,
    enums in the four variant shapes, maps over every key type the Serializer can write — strings,
    chars, newtypes and options of strings, unit-variant enums, whose order is not the order of the
    spelled keys —, nested arbitrarily) and every value [x] of it that the JSON image can carry
    ([chk]: finite floats, no [Some] around a value that serialises to null, no empty tuple variant),
    decoding what the library's Serializer made of [x] yields [x]. *)
Theorem C14_value_survives : forall t x v, chk t x = true -> ser_var x = SOk v -> de t v = Some x.
Proof. exact de_ser_round_trip. Qed.
Print Assumptions C14_value_survives.

(** Whatever the decoder accepts is a value of the requested type: the requested shape at every level of nesting
    (variant names of the enum, field names of the struct in declaration order, one component per tuple position),
    integers within the range of their width, keys of the requested key type; for every type description and every
    library value (well-formed or not). *)
Theorem C14_decoded_values_are_well_typed : forall t v x, de t v = Some x -> wt t x = true.
Proof. exact de_well_typed. Qed.
Print Assumptions C14_decoded_values_are_well_typed.

(** Integer targets apply the range check of their width: no wrap-around, floats refused. *)
Theorem C14_integer_targets_checked : forall lo hi v x, de (TInt lo hi) v = Some x ->
  exists z, x = SInt z /\ lo <= z <= hi /\ (v = VNum (PosInt z) \/ v = VNum (NegInt z)).
Proof. exact de_int_sound. Qed.
Print Assumptions C14_integer_targets_checked.

(** What the JSON image cannot carry (excluded by [chk]; the same holds of serde_json itself). *)
Theorem C14_limits_of_the_json_image :
  (ser_var (SSome SNone) = SOk VNull /\ de (TOption (TOption TBool)) VNull = Some SNone) /\
  (forall n, ser_var (STupleVariant n []) = SOk (VObj [(n, VArr [])]) /\ de (TEnum [(n, TTupleStruct [])]) (VObj [(n, VArr [])]) = None) /\
  (forall f, f_is_finite f = false -> ser_var (SF64 f) = SOk VNull /\ de TF64 VNull = None).
Proof. exact (conj nested_none_is_lost (conj empty_tuple_variant_is_lost non_finite_float_is_lost)). Qed.
Print Assumptions C14_limits_of_the_json_image.

(** the premises are satisfiable on a nested value: a struct holding an enum, a sequence of structs,
    a string-keyed map of optional enums, a tuple at the 64-bit extremes, a newtype, and a map keyed by an enum
    (entries in variant order Red, Green; stored under the spelled keys in the order "Green", "Red") *)
Definition ex_ty : ty :=
  let en := TEnum [([65], TUnit); ([66], TNewtype (TInt 0 4294967295)); ([67], TTupleStruct [TInt (-128) 127; TBool]);
                   ([68], TStruct [([112], TF64); ([113], TSeq (TInt 0 255))])] in
  TStruct [([101], en); ([108], TSeq (TStruct [([120], TInt (-2147483648) 2147483647); ([121], TOption TString)]));
           ([109], TMap KString (TOption en)); ([116], TTuple [TInt 0 18446744073709551615; TInt (-9223372036854775808) 9223372036854775807]);
           ([119], TNewtype (TInt 0 255));
           ([122], TMap (KEnum [[82; 101; 100]; [71; 114; 101; 101; 110]]) (TInt (-128) 127))].
Definition ex_val : sval :=
  SStruct [([101], SStructVariant [68] [([112], SF64 (f_of_Z 3)); ([113], SSeq [SInt 1; SInt 255])]);
           ([108], SSeq [SStruct [([120], SInt (-7)); ([121], SNone)]; SStruct [([120], SInt 2147483647); ([121], SSome (SStr [97]))]]);
           ([109], SMap [(SStr [106], SSome (SNewtypeVariant [66] (SInt 2))); (SStr [107], SNone)]);
           ([116], STuple [SInt 18446744073709551615; SInt (-9223372036854775808)]);
           ([119], SNewtypeStruct (SInt 9));
           ([122], SMap [(SUnitVariant [82; 101; 100], SInt 1); (SUnitVariant [71; 114; 101; 101; 110], SInt (-1))])].
Example C14_survives_example :
  chk ex_ty ex_val = true /\ match ser_var ex_val with SOk v => de ex_ty v = Some ex_val | SErr => False end.
Proof. split; vm_compute; reflexivity. Qed.
