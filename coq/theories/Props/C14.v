(** C14 — serde bridge (partial: the decoding half is decided against serde_json
    itself by correspondence; see DESIGN.md).  Statements only. *)
From JP Require Import Base F64 Value Serde Proofs.SerdeProof.

(** Converting a typed value for searching ([ser_var]: the library's
    Serializer, method by method) produces exactly the JSON value that
    serde_json's Value serializer produces ([ser_json]) for every value of
    serde's data model with string-keyed maps: all integer widths, floats with
    non-finite mapped to null, chars, bytes, options, unit forms, the four enum
    variant shapes, tuples, sequences, maps (last duplicate key wins), structs,
    nested arbitrarily. *)
Theorem C14_serialize_as_json_image : forall v, string_keyed v = true -> ser_var v = ser_json v.
Proof. exact ser_agree. Qed.
Print Assumptions C14_serialize_as_json_image.

Theorem C14_non_finite_is_null : forall f, f_is_finite f = false -> ser_var (SF64 f) = SOk VNull /\ ser_var (SF32 f) = SOk VNull.
Proof. exact ser_non_finite_is_null. Qed.
Print Assumptions C14_non_finite_is_null.

Theorem C14_variant_shapes : forall n x y l ys fs m,
  ser_var (SUnitVariant n) = SOk (VStr n) /\
  (ser_var x = SOk y -> ser_var (SNewtypeVariant n x) = SOk (VObj [(n, y)])) /\
  (ser_var (SSeq l) = SOk (VArr ys) -> ser_var (STupleVariant n l) = SOk (VObj [(n, VArr ys)])) /\
  (ser_var (SStruct fs) = SOk (VObj m) -> ser_var (SStructVariant n fs) = SOk (VObj [(n, VObj m)])).
Proof. exact ser_variant_shapes. Qed.
Print Assumptions C14_variant_shapes.

(** A library value survives the trip through the serializer unchanged. *)
Theorem C14_value_round_trip : forall v, wf_json v = true -> ser_var (sval_of_value v) = SOk v.
Proof. exact conv_value_identity. Qed.
Print Assumptions C14_value_round_trip.

Example C14_example :
  ser_var (SStructVariant [68] [([112], SF64 (f_of_Z 1)); ([113], SBytes [1; 2])]) =
    SOk (VObj [([68], VObj [([112], VNum (Flt (f_of_Z 1))); ([113], VArr [VNum (PosInt 1); VNum (PosInt 2)])])]) /\
  ser_var (SMap [(SInt 1, SUnit)]) = SErr /\ ser_json (SMap [(SInt 1, SUnit)]) = SOk (VObj [([49], VNull)]).
Proof. vm_compute. repeat split; reflexivity. Qed.
