(** C16 — with the sync feature, compiled expressions are safely shareable
    across threads (partial: the type-level half is decided by rustc when the
    harness is built with --features sync; data races in the memory-model sense
    are outside the model).  Statements only. *)
From JP Require Import Base F64 Value Interp History Conc Gen.Tables Proofs.ConcProof.

(** Facts re-extracted from the source on this run: Rcvar is Arc under sync (Rc
    otherwise), Function requires Send + Sync, the default runtime is a
    lazy_static initialised with the builtins, and the crate has no interior
    mutability, no unsafe, no static mut and no Rc outside the alias. *)
Theorem C16_source_facts :
  gen_rcvar_arc_with_sync && gen_rcvar_rc_without_sync && gen_function_requires_send_sync && gen_default_runtime_lazy_static
  && (gen_interior_mutability_sites =? 0) && (gen_unsafe_sites =? 0) && (gen_static_mut_sites =? 0) && (gen_rc_outside_alias_sites =? 0) = true.
Proof. vm_compute. reflexivity. Qed.
Print Assumptions C16_source_facts.

(** In the interleaving model (shared once-cell, immutable compiled expressions
    and inputs) every schedule of any number of threads gives each thread
    exactly the results of a sequential execution. *)
Theorem C16_thread_results_are_sequential : forall progs sched i p acc,
  nth_error progs i = Some p -> nth_error (pending (crun progs sched)) i = Some [] ->
  nth_error (done (crun progs sched)) i = Some acc -> acc = sequential p.
Proof. exact thread_results_are_sequential. Qed.
Print Assumptions C16_thread_results_are_sequential.

Theorem C16_partial_results_are_sequential_prefix : forall progs sched i p,
  nth_error progs i = Some p ->
  exists rest acc, nth_error (pending (crun progs sched)) i = Some rest /\
                   nth_error (done (crun progs sched)) i = Some acc /\ acc ++ sequential rest = sequential p.
Proof. exact partial_results_are_sequential_prefix. Qed.
Print Assumptions C16_partial_results_are_sequential_prefix.

(** The default runtime is initialised at most once and always with the builtins, whoever gets there first. *)
Theorem C16_runtime_initialised_once : forall progs sched,
  the_cell (crun progs sched) = None \/ the_cell (crun progs sched) = Some default_runtime.
Proof. exact runtime_initialised_once_with_builtins. Qed.
Print Assumptions C16_runtime_initialised_once.

Example C16_example :
  let p := [([97], VObj [([97], VNum (PosInt 1))])] in
  done (crun [p; p] [1; 0]%nat) = [sequential p; sequential p].
Proof. vm_compute. reflexivity. Qed.
