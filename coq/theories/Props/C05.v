(** C05 — compile and search are total (partial: stack exhaustion on deep
    nesting and the self-applied expression reference are recorded known
    findings — the model proves absence of panics, not termination within a
    stack budget; both are also exercised in child processes, debug and release).  Statements only. *)
From JP Require Import Base F64 Value Sig Slice Functions Interp Spec.SliceSpec Spec.Semantics Spec.SigSpec
     Lexer Parser JsonRead Proofs.InterpProof Proofs.TotalProof Proofs.ParseErrProof Proofs.CmpProof Proofs.NoTrapProof
     Proofs.FuelProof Proofs.ParseFuelProof Proofs.TermProof.

(** Slices return for the whole 32-bit range of start/stop/step (no overflow, no out-of-bounds index, no loop). *)
Theorem C05_slice_returns : forall (A : Type) (arr : list A) start stop step, i32_min <= step -> step <> 0 -> returns (slice arr start stop step).
Proof. exact @slice_returns. Qed.
Print Assumptions C05_slice_returns.

Theorem C05_negative_index_returns : forall v n, 0 < n -> returns (get_negative_index v n).
Proof. exact negative_index_returns. Qed.
Print Assumptions C05_negative_index_returns.

(** Signature validation never indexes out of bounds. *)
Theorem C05_validate_returns : forall sg args off, returns (validate sg args off).
Proof. exact validate_returns. Qed.
Print Assumptions C05_validate_returns.

(** Evaluating a core tree returns within fuel proportional to its height, for every document. *)
Theorem C05_core_search_returns : forall n rt e d o, core e = true -> (height e <= n)%nat -> returns (interp n rt d e o).
Proof. exact core_returns. Qed.
Print Assumptions C05_core_search_returns.

(** compile never panics: the lexer, the embedded JSON reader and the parser have no reachable trap
    (no unchecked arithmetic, no out-of-bounds index, no unreachable arm), for every input string. *)
Theorem C05_compile_never_traps : forall s, parse s <> Trap.
Proof. exact compile_never_traps. Qed.
Print Assumptions C05_compile_never_traps.

(** No builtin body traps behind a signature that guards what the body takes for
    granted (the argument it indexes exist, [contains]/[length] see only the kinds
    they match on), whatever the arguments and the expression evaluator are ... *)
Theorem C05_builtins_never_trap : forall ev b sg args off, ev_nt ev -> sig_safe b sg = true -> nt (call_builtin ev b sg args off).
Proof. exact call_builtin_nt. Qed.
Print Assumptions C05_builtins_never_trap.

(** ... and every entry of the default runtime — built from the registration list
    and the signatures extracted from the source on this run — is guarded. *)
Theorem C05_default_runtime_is_guarded : registry_safe default_runtime = true.
Proof. vm_compute. reflexivity. Qed.
Print Assumptions C05_default_runtime_is_guarded.

(** search never panics: for every tree whose indexes are above i32::MIN (the
    lexer cannot spell i32::MIN), every document whose expression references, if
    any, are such trees (every JSON document), and every registry with guarded
    builtins, evaluation — through all 26 builtins, projections, expression
    references evaluated by sort_by/max_by/min_by/map — never reaches a trap; and
    every value it produces is again safe. *)
Theorem C05_search_never_traps : forall n rt a d,
  registry_safe rt = true -> vok d = true -> tree_ok a = true -> search_ast n rt a d <> Trap.
Proof. exact search_never_traps. Qed.
Print Assumptions C05_search_never_traps.

Theorem C05_json_documents_are_safe : forall v, no_expref v = true -> vok v = true.
Proof. exact no_expref_vok. Qed.
Print Assumptions C05_json_documents_are_safe.

Theorem C05_evaluation_preserves_safety : forall n rt, registry_safe rt = true ->
  forall d e o, vok d = true -> tree_ok e = true -> good (interp n rt d e o).
Proof. exact interp_good. Qed.
Print Assumptions C05_evaluation_preserves_safety.

(** compile terminates: the loops of the JSON reader, the lexer and the parser
    all consume input, and the fuel the model runs them on (linear in the input:
    4 + 2 n characters, n + 1 characters, 64 + 24 n tokens) is never exhausted —
    the out-of-fuel outcome of the model is unreachable for compile, on every
    input string, for every binding-power table. *)
Theorem C05_json_reader_terminates : forall s, from_json s <> OOF.
Proof. exact from_json_never_out_of_fuel. Qed.
Print Assumptions C05_json_reader_terminates.

Theorem C05_tokenize_terminates : forall s, tokenize s <> OOF.
Proof. exact tokenize_never_out_of_fuel. Qed.
Print Assumptions C05_tokenize_terminates.

Theorem C05_parser_terminates : forall L STOP strict toks, parse_tokens L STOP strict (parse_fuel toks) toks <> OOF.
Proof. exact parse_tokens_never_out_of_fuel. Qed.
Print Assumptions C05_parser_terminates.

Theorem C05_compile_terminates : forall s, parse s <> OOF.
Proof. exact parse_never_out_of_fuel. Qed.
Print Assumptions C05_compile_terminates.

(** so compile returns an expression or a parse error (or the model declines:
    [Unmodelled], only for a literal number needing more than six rounds of
    scaling, which the JSON reader never needs — measured, not proved). *)
Theorem C05_compile_total : forall s,
  (exists t, parse s = Ok t) \/ (exists p, parse s = Err (EParse p)) \/ parse s = Unmodelled.
Proof.
  intros s. pose proof (compile_never_traps s) as H1. pose proof (parse_never_out_of_fuel s) as H2.
  pose proof (compile_errors_are_parse_errors s) as H3.
  destruct (parse s) as [t|e| | |]; [left; eauto| right; left; destruct (H3 e eq_refl) as [p ->]; eauto | contradiction | contradiction | right; right; reflexivity].
Qed.
Print Assumptions C05_compile_total.

(** search terminates: for every expression whose expression references occur
    only where the specification gives them a meaning — as the first argument of
    map and the second of sort_by / max_by / min_by ([disc]) —, every JSON
    document (no expression reference in the data) and any fuel not below the
    height of the tree, evaluation on the default runtime (the registration list
    read from the source on this run) is never out of fuel, through all 26
    builtins; and the result is again a JSON value: no expression reference
    escapes into data.  (Outside [disc] an expression reference can reach a data
    position through a parameter declared [any] and be applied to itself: the
    recorded known finding.) *)
Theorem C05_search_terminates : forall a d n, disc a = true -> tree_ok a = true -> no_expref d = true -> (hgt a <= n)%nat ->
  search_ast n default_runtime a d <> OOF /\ forall v, search_ast n default_runtime a d = Ok v -> no_expref v = true.
Proof. exact search_terminates. Qed.
Print Assumptions C05_search_terminates.

(** every builtin, applied to JSON values, returns (or fails) without evaluating anything and yields a JSON value *)
Theorem C05_builtins_terminate_on_json : forall ev b sg args off, nxs args -> Q (call_builtin ev b sg args off).
Proof. exact call_builtin_Q_json. Qed.
Print Assumptions C05_builtins_terminate_on_json.

Example C05_disciplined_example :
  match parse [115;111;114;116;95;98;121;40;97;44;32;38;98;41;91;48;93;32;124;32;109;97;112;40;38;99;91;42;93;44;32;64;41] with   (* sort_by(a, &b)[0] | map(&c[*], @) *)
  | Ok a => disc a && tree_ok a
  | _ => false
  end = true.
Proof. vm_compute. reflexivity. Qed.
