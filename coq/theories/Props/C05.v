(** C05 — compile and search are total (partial: stack exhaustion on deep
    nesting and the self-applied expression reference are recorded known
    findings; the lexer/parser/builtin bodies are decided by correspondence in
    debug and release builds).  Statements only. *)
From JP Require Import Base F64 Value Sig Slice Functions Interp Spec.SliceSpec Spec.Semantics Spec.SigSpec
     Lexer Parser Proofs.InterpProof Proofs.TotalProof Proofs.ParseErrProof.

(** Slices return for the whole 32-bit range of start/stop/step (no overflow, no out-of-bounds index, no loop). *)
Theorem C05_slice_returns : forall (A : Type) (arr : list A) start stop step, i32_min <= step -> step <> 0 -> returns (slice arr start stop step).
Proof. exact @slice_returns. Qed.
Print Assumptions C05_slice_returns.

Theorem C05_negative_index_returns : forall v n, 0 < n -> returns (get_negative_index v n).
Proof. exact negative_index_returns. Qed.
Print Assumptions C05_negative_index_returns.

(** Signature validation never indexes out of bounds. *)
Theorem C05_validate_returns : forall sg args off, returns (validate sg args off).
Proof. exact validate_returns. Qed.
Print Assumptions C05_validate_returns.

(** Evaluating a core tree returns within fuel proportional to its height, for every document. *)
Theorem C05_core_search_returns : forall n rt e d o, core e = true -> (height e <= n)%nat -> returns (interp n rt d e o).
Proof. exact core_returns. Qed.
Print Assumptions C05_core_search_returns.

(** compile never panics: the lexer, the embedded JSON reader and the parser have no reachable trap
    (no unchecked arithmetic, no out-of-bounds index, no unreachable arm), for every input string. *)
Theorem C05_compile_never_traps : forall s, parse s <> Trap.
Proof. exact compile_never_traps. Qed.
Print Assumptions C05_compile_never_traps.
