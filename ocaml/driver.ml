(* Line driver for the extracted model: reads one ASCII case line, converts it
   to a list of Coq [Z] byte codes, calls [Model.run_line], prints the result. *)

let rec pos_of_int n =
  if n = 1 then Model.XH
  else if n land 1 = 0 then Model.XO (pos_of_int (n lsr 1))
  else Model.XI (pos_of_int (n lsr 1))

let z_of_int n = if n = 0 then Model.Z0 else if n > 0 then Model.Zpos (pos_of_int n) else Model.Zneg (pos_of_int (-n))

let rec int_of_pos = function
  | Model.XH -> 1
  | Model.XO p -> 2 * int_of_pos p
  | Model.XI p -> 2 * int_of_pos p + 1

let int_of_z = function Model.Z0 -> 0 | Model.Zpos p -> int_of_pos p | Model.Zneg p -> - (int_of_pos p)

let ztab = Array.init 256 z_of_int

let () =
  let buf = Buffer.create 4096 in
  (try
     while true do
       let line = input_line stdin in
       let n = String.length line in
       let l = ref [] in
       for i = n - 1 downto 0 do
         l := ztab.(Char.code line.[i]) :: !l
       done;
       let out = Model.run_line !l in
       Buffer.clear buf;
       List.iter (fun z -> Buffer.add_char buf (Char.chr (int_of_z z))) out;
       Buffer.add_char buf '\n';
       print_string (Buffer.contents buf)
     done
   with End_of_file -> ());
  flush stdout
