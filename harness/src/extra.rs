// Surfaces for C08 (JSON text), C14 (serde bridge) and C17 (input conversions).
use crate::wire::*;
use jmespath::{Rcvar, ToJmespath, Variable};
use serde::de::Deserialize;
use serde::ser::{Serialize, SerializeMap, SerializeSeq, SerializeStruct, SerializeStructVariant, SerializeTuple, SerializeTupleStruct, SerializeTupleVariant, Serializer};
use std::collections::BTreeMap;
use std::convert::TryFrom;

fn val_tokens(v: &Variable) -> String {
    let mut out = vec![];
    pr_value(v, &mut out);
    out.join(" ")
}

// ---------------------------------------------------------------- C08
// json <text>: from_json -> search '@' -> value, printed text, re-parse of the printed text, Value round trips
pub fn run_json(ts: &mut Toks) -> Option<String> {
    let text = parse_str(ts.next()?)?;
    Some(match Variable::from_json(&text) {
        Err(_) => "ERR json".to_string(),
        Ok(var) => {
            let expr = jmespath::compile("@").ok()?;
            let res = match expr.search(Rcvar::new(var.clone())) {
                Ok(r) => r,
                Err(_) => return Some("ERR search".to_string()),
            };
            let printed = res.to_string();
            let reparsed_ok = match Variable::from_json(&printed) {
                Ok(v2) => v2 == *res,   // "an equal value": the library's own equality (numbers by value, tolerant)
                Err(_) => false,
            };
            // serde_json::Value round trips (owned and borrowed), bit-exact on the wire form
            let value_ok = match serde_json::to_value(&*res) {
                Ok(jv) => {
                    let a = Variable::try_from(&jv).map(|v| val_tokens(&v) == val_tokens(&res)).unwrap_or(false);
                    let b = Variable::try_from(jv.clone()).map(|v| val_tokens(&v) == val_tokens(&res)).unwrap_or(false);
                    // and serde_json's own reading of the text gives the same Value
                    let c = serde_json::from_str::<serde_json::Value>(&text).map(|t| t == jv).unwrap_or(false);
                    // the Deserializer route: decoding the value into serde_json's generic type
                    let d = serde_json::Value::deserialize((*res).clone()).map(|t| t == jv).unwrap_or(false);
                    a && b && c && d
                }
                Err(_) => false,
            };
            format!("OK {} T {} R {} V {}", val_tokens(&res), print_str(&printed), if reparsed_ok { "t" } else { "f" }, if value_ok { "t" } else { "f" })
        }
    })
}

// ---------------------------------------------------------------- C14: a dynamic serde value
#[derive(Debug, Clone)]
pub enum Dyn {
    Bool(bool),
    I8(i8), I16(i16), I32(i32), I64(i64),
    U8(u8), U16(u16), U32(u32), U64(u64),
    F32(f32), F64(f64),
    Char(char), Str(String), Bytes(Vec<u8>),
    None, Some(Box<Dyn>), Unit, UnitStruct, UnitVariant(&'static str),
    NewtypeStruct(Box<Dyn>), NewtypeVariant(&'static str, Box<Dyn>),
    Seq(Vec<Dyn>), Tuple(Vec<Dyn>), TupleStruct(Vec<Dyn>), TupleVariant(&'static str, Vec<Dyn>),
    Map(Vec<(Dyn, Dyn)>), Struct(Vec<(&'static str, Dyn)>), StructVariant(&'static str, Vec<(&'static str, Dyn)>),
    // values whose Serialize impl asks the serializer whether the format is human readable (only through `serx` lines)
    Ip(std::net::IpAddr), Sock(std::net::SocketAddr), Hr,
}

fn leak(s: String) -> &'static str {
    Box::leak(s.into_boxed_str())
}

impl Serialize for Dyn {
    fn serialize<S: Serializer>(&self, s: S) -> Result<S::Ok, S::Error> {
        match self {
            Dyn::Ip(ip) => ip.serialize(s),
            Dyn::Sock(a) => a.serialize(s),
            Dyn::Hr => if s.is_human_readable() { s.serialize_str("human") } else { s.serialize_u8(0) },
            Dyn::Bool(b) => s.serialize_bool(*b),
            Dyn::I8(n) => s.serialize_i8(*n),
            Dyn::I16(n) => s.serialize_i16(*n),
            Dyn::I32(n) => s.serialize_i32(*n),
            Dyn::I64(n) => s.serialize_i64(*n),
            Dyn::U8(n) => s.serialize_u8(*n),
            Dyn::U16(n) => s.serialize_u16(*n),
            Dyn::U32(n) => s.serialize_u32(*n),
            Dyn::U64(n) => s.serialize_u64(*n),
            Dyn::F32(f) => s.serialize_f32(*f),
            Dyn::F64(f) => s.serialize_f64(*f),
            Dyn::Char(c) => s.serialize_char(*c),
            Dyn::Str(x) => s.serialize_str(x),
            Dyn::Bytes(b) => s.serialize_bytes(b),
            Dyn::None => s.serialize_none(),
            Dyn::Some(v) => s.serialize_some(&**v),
            Dyn::Unit => s.serialize_unit(),
            Dyn::UnitStruct => s.serialize_unit_struct("U"),
            Dyn::UnitVariant(n) => s.serialize_unit_variant("E", 0, n),
            Dyn::NewtypeStruct(v) => s.serialize_newtype_struct("N", &**v),
            Dyn::NewtypeVariant(n, v) => s.serialize_newtype_variant("E", 1, n, &**v),
            Dyn::Seq(l) => {
                let mut q = s.serialize_seq(Some(l.len()))?;
                for x in l {
                    q.serialize_element(x)?;
                }
                q.end()
            }
            Dyn::Tuple(l) => {
                let mut q = s.serialize_tuple(l.len())?;
                for x in l {
                    q.serialize_element(x)?;
                }
                q.end()
            }
            Dyn::TupleStruct(l) => {
                let mut q = s.serialize_tuple_struct("T", l.len())?;
                for x in l {
                    q.serialize_field(x)?;
                }
                q.end()
            }
            Dyn::TupleVariant(n, l) => {
                let mut q = s.serialize_tuple_variant("E", 2, n, l.len())?;
                for x in l {
                    q.serialize_field(x)?;
                }
                q.end()
            }
            Dyn::Map(l) => {
                let mut q = s.serialize_map(Some(l.len()))?;
                for (k, v) in l {
                    q.serialize_key(k)?;
                    q.serialize_value(v)?;
                }
                q.end()
            }
            Dyn::Struct(l) => {
                let mut q = s.serialize_struct("S", l.len())?;
                for (k, v) in l {
                    q.serialize_field(k, v)?;
                }
                q.end()
            }
            Dyn::StructVariant(n, l) => {
                let mut q = s.serialize_struct_variant("E", 3, n, l.len())?;
                for (k, v) in l {
                    q.serialize_field(k, v)?;
                }
                q.end()
            }
        }
    }
}

fn rd_dyn_list(ts: &mut Toks) -> Option<Vec<Dyn>> {
    if ts.next()? != "[" {
        return None;
    }
    let mut v = vec![];
    loop {
        if ts.peek()? == "]" {
            ts.next();
            break;
        }
        v.push(rd_dyn(ts)?);
    }
    Some(v)
}

fn rd_dyn_fields(ts: &mut Toks) -> Option<Vec<(&'static str, Dyn)>> {
    if ts.next()? != "{" {
        return None;
    }
    let mut v = vec![];
    loop {
        if ts.peek()? == "}" {
            ts.next();
            break;
        }
        let k = leak(parse_str(ts.next()?)?);
        v.push((k, rd_dyn(ts)?));
    }
    Some(v)
}

pub fn rd_dyn(ts: &mut Toks) -> Option<Dyn> {
    let t = ts.next()?;
    Some(match t {
        "IP4" => { let v: Vec<u8> = (0..4).map(|_| ts.next().and_then(|x| x.parse().ok())).collect::<Option<Vec<u8>>>()?; Dyn::Ip(std::net::IpAddr::V4(std::net::Ipv4Addr::new(v[0], v[1], v[2], v[3]))) }
        "IP6" => { let v: Vec<u16> = (0..8).map(|_| ts.next().and_then(|x| x.parse().ok())).collect::<Option<Vec<u16>>>()?; Dyn::Ip(std::net::IpAddr::V6(std::net::Ipv6Addr::new(v[0], v[1], v[2], v[3], v[4], v[5], v[6], v[7]))) }
        "SOCK" => { let v: Vec<u16> = (0..5).map(|_| ts.next().and_then(|x| x.parse().ok())).collect::<Option<Vec<u16>>>()?; Dyn::Sock(std::net::SocketAddr::new(std::net::IpAddr::V4(std::net::Ipv4Addr::new(v[0] as u8, v[1] as u8, v[2] as u8, v[3] as u8)), v[4])) }
        "HR" => Dyn::Hr,
        "B" => Dyn::Bool(ts.next()? == "t"),
        "I8" => Dyn::I8(ts.next()?.parse().ok()?),
        "I16" => Dyn::I16(ts.next()?.parse().ok()?),
        "I32" => Dyn::I32(ts.next()?.parse().ok()?),
        "I64" => Dyn::I64(ts.next()?.parse().ok()?),
        "U8" => Dyn::U8(ts.next()?.parse().ok()?),
        "U16" => Dyn::U16(ts.next()?.parse().ok()?),
        "U32" => Dyn::U32(ts.next()?.parse().ok()?),
        "U64" => Dyn::U64(ts.next()?.parse().ok()?),
        "F32" => Dyn::F32(f32::from_bits(u32::from_str_radix(ts.next()?, 16).ok()?)),
        "F64" => Dyn::F64(f64::from_bits(u64::from_str_radix(ts.next()?, 16).ok()?)),
        "C" => Dyn::Char(char::from_u32(ts.next()?.parse().ok()?)?),
        "S" => Dyn::Str(parse_str(ts.next()?)?),
        "Y" => {
            if ts.next()? != "[" {
                return None;
            }
            let mut b = vec![];
            loop {
                let x = ts.next()?;
                if x == "]" {
                    break;
                }
                b.push(x.parse().ok()?);
            }
            Dyn::Bytes(b)
        }
        "None" => Dyn::None,
        "Some" => Dyn::Some(Box::new(rd_dyn(ts)?)),
        "Unit" => Dyn::Unit,
        "UStruct" => Dyn::UnitStruct,
        "UVar" => Dyn::UnitVariant(leak(parse_str(ts.next()?)?)),
        "NStruct" => Dyn::NewtypeStruct(Box::new(rd_dyn(ts)?)),
        "NVar" => {
            let n = leak(parse_str(ts.next()?)?);
            Dyn::NewtypeVariant(n, Box::new(rd_dyn(ts)?))
        }
        "Seq" => Dyn::Seq(rd_dyn_list(ts)?),
        "Tup" => Dyn::Tuple(rd_dyn_list(ts)?),
        "TStruct" => Dyn::TupleStruct(rd_dyn_list(ts)?),
        "TVar" => {
            let n = leak(parse_str(ts.next()?)?);
            Dyn::TupleVariant(n, rd_dyn_list(ts)?)
        }
        "Map" => {
            if ts.next()? != "{" {
                return None;
            }
            let mut v = vec![];
            loop {
                if ts.peek()? == "}" {
                    ts.next();
                    break;
                }
                let k = rd_dyn(ts)?;
                let x = rd_dyn(ts)?;
                v.push((k, x));
            }
            Dyn::Map(v)
        }
        "Struct" => Dyn::Struct(rd_dyn_fields(ts)?),
        "SVar" => {
            let n = leak(parse_str(ts.next()?)?);
            Dyn::StructVariant(n, rd_dyn_fields(ts)?)
        }
        _ => return None,
    })
}

// ser <dyn> [<expr>]: the value searched as a typed value vs. its serde_json image
pub fn run_ser(ts: &mut Toks) -> Option<String> {
    let d = rd_dyn(ts)?;
    let ours = Variable::from_serializable(&d);
    let theirs = serde_json::to_value(&d);
    let a = match &ours {
        Ok(v) => format!("OK {}", val_tokens(v)),
        Err(_) => "ERR".to_string(),
    };
    let b = match &theirs {
        Ok(j) => match Variable::try_from(j) {
            Ok(v) => format!("OK {}", val_tokens(&v)),
            Err(_) => "ERR".to_string(),
        },
        Err(_) => "ERR".to_string(),
    };
    // searching the typed value = searching its JSON text
    let mut s = String::new();
    if let (Ok(_), Ok(j)) = (&ours, &theirs) {
        let text = serde_json::to_string(j).ok()?;
        for e in ["@", "[@, @[0], *]", "keys(@)", "type(@)"] {
            let ex = jmespath::compile(e).ok()?;
            let r1 = ex.search(&d).map(|v| val_tokens(&v)).unwrap_or_else(|_| "ERR".into());
            let r2 = Variable::from_json(&text).ok().and_then(|v| ex.search(Rcvar::new(v)).ok()).map(|v| val_tokens(&v)).unwrap_or_else(|| "ERR".into());
            // floats printed with more than 17 digits do not occur; the text path re-reads decimals, so compare through the Value image
            let r3 = Variable::try_from(j).ok().and_then(|v| ex.search(Rcvar::new(v)).ok()).map(|v| val_tokens(&v)).unwrap_or_else(|| "ERR".into());
            let _ = r2;
            s.push_str(if r1 == r3 { " =" } else { " #" });
        }
    }
    Some(format!("{} | {} |{}", a, b, s))
}

// ---------------------------------------------------------------- C14: decoding into typed values
#[derive(serde::Serialize, serde::Deserialize, Debug, PartialEq)]
struct Pt { x: i32, y: Option<String> }
#[derive(serde::Serialize, serde::Deserialize, Debug, PartialEq)]
struct Wrap(u8);
#[derive(serde::Serialize, serde::Deserialize, Debug, PartialEq)]
struct Pair(i16, String);
#[derive(serde::Serialize, serde::Deserialize, Debug, PartialEq)]
struct Marker;
#[derive(serde::Serialize, serde::Deserialize, Debug, PartialEq)]
enum En { A, B(u32), C(i8, bool), D { p: f64, q: Vec<u8> } }
#[derive(serde::Serialize, serde::Deserialize, Debug, PartialEq, Eq, PartialOrd, Ord, Hash)]
struct UserId(String);
#[derive(serde::Serialize, serde::Deserialize, Debug, PartialEq, Eq, PartialOrd, Ord)]
enum Color { Red, Green }
#[derive(serde::Serialize, serde::Deserialize, Debug, PartialEq)]
enum En2 { At(Option<i32>), Mark(()), U(Marker), W(Wrap), V(Vec<u8>), N(Option<Option<bool>>), E(En), S {}, T() }
#[derive(serde::Serialize, serde::Deserialize, Debug, PartialEq)]
struct Nest { e: En, l: Vec<Pt>, m: BTreeMap<String, Option<En>>, t: (u64, i64), w: Wrap }

fn de_both<T: for<'a> Deserialize<'a> + std::fmt::Debug>(v: &Variable) -> String {
    let ours = T::deserialize(v.clone()).map(|x| format!("{:?}", x));
    let theirs = serde_json::to_value(v).ok().and_then(|j| serde_json::from_value::<T>(j).ok()).map(|x| format!("{:?}", x));
    match (ours, theirs) {
        (Ok(a), Some(b)) => format!("OK {} | OK {}", print_str(&a), print_str(&b)),
        (Ok(a), None) => format!("OK {} | ERR", print_str(&a)),
        (Err(_), Some(b)) => format!("ERR | OK {}", print_str(&b)),
        (Err(_), None) => "ERR | ERR".to_string(),
    }
}

// de <type-id> <value>
pub fn run_de(ts: &mut Toks) -> Option<String> {
    let ty = ts.next()?;
    let v = rd_value(ts)?;
    Some(match ty {
        "bool" => de_both::<bool>(&v),
        "i8" => de_both::<i8>(&v),
        "i16" => de_both::<i16>(&v),
        "i32" => de_both::<i32>(&v),
        "i64" => de_both::<i64>(&v),
        "u8" => de_both::<u8>(&v),
        "u16" => de_both::<u16>(&v),
        "u32" => de_both::<u32>(&v),
        "u64" => de_both::<u64>(&v),
        "f32" => de_both::<f32>(&v),
        "f64" => de_both::<f64>(&v),
        "char" => de_both::<char>(&v),
        "string" => de_both::<String>(&v),
        "unit" => de_both::<()>(&v),
        "opt_i32" => de_both::<Option<i32>>(&v),
        "opt_opt" => de_both::<Option<Option<bool>>>(&v),
        "vec_u64" => de_both::<Vec<u64>>(&v),
        "vec_vec" => de_both::<Vec<Vec<i8>>>(&v),
        "tup2" => de_both::<(i32, i32)>(&v),
        "tup3" => de_both::<(u8, String, Option<bool>)>(&v),
        "arr2" => de_both::<[i32; 2]>(&v),
        "map_u32" => de_both::<BTreeMap<String, u32>>(&v),
        "map_char" => de_both::<BTreeMap<char, i64>>(&v),
        "pt" => de_both::<Pt>(&v),
        "wrap" => de_both::<Wrap>(&v),
        "pair" => de_both::<Pair>(&v),
        "marker" => de_both::<Marker>(&v),
        "en" => de_both::<En>(&v),
        "nest" => de_both::<Nest>(&v),
        "map_nt" => de_both::<BTreeMap<UserId, u32>>(&v),
        "map_nt_nest" => de_both::<BTreeMap<String, BTreeMap<UserId, Vec<String>>>>(&v),
        "map_enumkey" => de_both::<BTreeMap<Color, i8>>(&v),
        "map_i32key" => de_both::<BTreeMap<i32, bool>>(&v),
        "map_u64key" => de_both::<BTreeMap<u64, Option<u8>>>(&v),
        "map_boolkey" => de_both::<BTreeMap<bool, u8>>(&v),
        "hmap_nt" => de_both::<std::collections::HashMap<UserId, i64>>(&v).replace("\n", " "),
        "ip" => de_both::<std::net::IpAddr>(&v),
        "en2" => de_both::<En2>(&v),
        "opt_en" => de_both::<Option<En>>(&v),
        "vec_en2" => de_both::<Vec<En2>>(&v),
        "map_en2" => de_both::<BTreeMap<String, En2>>(&v),
        "value" => de_both::<serde_json::Value>(&v),
        _ => return None,
    })
}

fn dex_both<T: for<'a> Deserialize<'a> + Serialize>(v: &Variable) -> String {
    let side = |r: Option<T>| match r.and_then(|x| crate::tokser::tokens(&x)) {
        Some(t) => format!("OK {}", t),
        None => "ERR".to_string(),
    };
    let ours = T::deserialize(v.clone()).ok();
    let theirs = serde_json::to_value(v).ok().and_then(|j| serde_json::from_value::<T>(j).ok());
    format!("{} | {}", side(ours), side(theirs))
}

// dex <type-id> <value> : the decoded value observed structurally (serde data model tokens), library | serde_json
pub fn run_dex(ts: &mut Toks) -> Option<String> {
    let ty = ts.next()?;
    let v = rd_value(ts)?;
    Some(match ty {
        "bool" => dex_both::<bool>(&v),
        "i8" => dex_both::<i8>(&v),
        "i16" => dex_both::<i16>(&v),
        "i32" => dex_both::<i32>(&v),
        "i64" => dex_both::<i64>(&v),
        "u8" => dex_both::<u8>(&v),
        "u16" => dex_both::<u16>(&v),
        "u32" => dex_both::<u32>(&v),
        "u64" => dex_both::<u64>(&v),
        "f64" => dex_both::<f64>(&v),
        "char" => dex_both::<char>(&v),
        "string" => dex_both::<String>(&v),
        "unit" => dex_both::<()>(&v),
        "opt_i32" => dex_both::<Option<i32>>(&v),
        "opt_opt" => dex_both::<Option<Option<bool>>>(&v),
        "vec_u64" => dex_both::<Vec<u64>>(&v),
        "vec_vec" => dex_both::<Vec<Vec<i8>>>(&v),
        "tup2" => dex_both::<(i32, i32)>(&v),
        "tup3" => dex_both::<(u8, String, Option<bool>)>(&v),
        "arr2" => dex_both::<[i32; 2]>(&v),
        "map_u32" => dex_both::<BTreeMap<String, u32>>(&v),
        "map_char" => dex_both::<BTreeMap<char, i64>>(&v),
        "pt" => dex_both::<Pt>(&v),
        "wrap" => dex_both::<Wrap>(&v),
        "pair" => dex_both::<Pair>(&v),
        "marker" => dex_both::<Marker>(&v),
        "en" => dex_both::<En>(&v),
        "nest" => dex_both::<Nest>(&v),
        "map_nt" => dex_both::<BTreeMap<UserId, u32>>(&v),
        "map_nt_nest" => dex_both::<BTreeMap<String, BTreeMap<UserId, Vec<String>>>>(&v),
        "map_enumkey" => dex_both::<BTreeMap<Color, i8>>(&v),
        "map_i32key" => dex_both::<BTreeMap<i32, bool>>(&v),
        "map_u64key" => dex_both::<BTreeMap<u64, Option<u8>>>(&v),
        "map_boolkey" => dex_both::<BTreeMap<bool, u8>>(&v),
        "en2" => dex_both::<En2>(&v),
        "opt_en" => dex_both::<Option<En>>(&v),
        "vec_en2" => dex_both::<Vec<En2>>(&v),
        "map_en2" => dex_both::<BTreeMap<String, En2>>(&v),
        "value" => dex_both::<serde_json::Value>(&v),
        _ => return None,
    })
}

// ---------------------------------------------------------------- C17: input conversions
fn conv_res(r: Result<Rcvar, jmespath::JmespathError>) -> String {
    match r {
        Ok(v) => format!("OK {}", val_tokens(&v)),
        Err(_) => "ERR conv".to_string(),
    }
}

// conv <kind> <payload> : x.to_jmespath() for the specially handled input types
pub fn run_conv(ts: &mut Toks) -> Option<String> {
    let kind = ts.next()?;
    Some(match kind {
        "json" => {
            let v = rd_value(ts)?;
            let j = serde_json::to_value(&v).ok()?;
            let a = conv_res(j.clone().to_jmespath());
            let b = conv_res((&j).to_jmespath());
            if a == b { a } else { format!("DIFF {} | {}", a, b) }
        }
        "var" => {
            let v = rd_value(ts)?;
            let a = conv_res(v.clone().to_jmespath());
            let b = conv_res((&v).to_jmespath());
            let rc = Rcvar::new(v);
            let c = conv_res(rc.clone().to_jmespath());
            let d = conv_res((&rc).to_jmespath());
            if a == b && b == c && c == d { a } else { format!("DIFF {} | {} | {} | {}", a, b, c, d) }
        }
        "str" => {
            let s = parse_str(ts.next()?)?;
            let a = conv_res(s.as_str().to_jmespath());
            let b = conv_res(s.clone().to_jmespath());
            if a == b { a } else { format!("DIFF {} | {}", a, b) }
        }
        "i8" => conv_res(ts.next()?.parse::<i8>().ok()?.to_jmespath()),
        "i16" => conv_res(ts.next()?.parse::<i16>().ok()?.to_jmespath()),
        "i32" => conv_res(ts.next()?.parse::<i32>().ok()?.to_jmespath()),
        "i64" => conv_res(ts.next()?.parse::<i64>().ok()?.to_jmespath()),
        "isize" => conv_res(ts.next()?.parse::<isize>().ok()?.to_jmespath()),
        "u8" => conv_res(ts.next()?.parse::<u8>().ok()?.to_jmespath()),
        "u16" => conv_res(ts.next()?.parse::<u16>().ok()?.to_jmespath()),
        "u32" => conv_res(ts.next()?.parse::<u32>().ok()?.to_jmespath()),
        "u64" => conv_res(ts.next()?.parse::<u64>().ok()?.to_jmespath()),
        "usize" => conv_res(ts.next()?.parse::<usize>().ok()?.to_jmespath()),
        "i128" => conv_res(ts.next()?.parse::<i128>().ok()?.to_jmespath()),
        "u128" => conv_res(ts.next()?.parse::<u128>().ok()?.to_jmespath()),
        "f32" => conv_res(f32::from_bits(u32::from_str_radix(ts.next()?, 16).ok()?).to_jmespath()),
        "f64" => conv_res(f64::from_bits(u64::from_str_radix(ts.next()?, 16).ok()?).to_jmespath()),
        "unit" => conv_res(().to_jmespath()),
        "bool" => conv_res((ts.next()? == "t").to_jmespath()),
        _ => return None,
    })
}
