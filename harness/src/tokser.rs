// A serde Serializer that writes a typed value as wire tokens of serde's data model (C14, `dex` lines):
// the decoded Rust value is observed structurally (variant names, field names, integer values, float bits),
// not through its Debug text.
use crate::wire::print_str;
use serde::ser::{self, Serialize};
use std::fmt;

#[derive(Debug)]
pub struct TokErr(String);
impl fmt::Display for TokErr {
    fn fmt(&self, f: &mut fmt::Formatter) -> fmt::Result {
        write!(f, "{}", self.0)
    }
}
impl std::error::Error for TokErr {}
impl ser::Error for TokErr {
    fn custom<T: fmt::Display>(msg: T) -> Self {
        TokErr(msg.to_string())
    }
}

pub struct TokSer<'a> {
    pub out: &'a mut Vec<String>,
}

pub fn tokens<T: Serialize>(x: &T) -> Option<String> {
    let mut out = vec![];
    x.serialize(TokSer { out: &mut out }).ok()?;
    Some(out.join(" "))
}

pub struct Compound<'a> {
    out: &'a mut Vec<String>,
    close: &'static str,
}

impl<'a> TokSer<'a> {
    fn tok(self, s: String) -> Result<(), TokErr> {
        self.out.push(s);
        Ok(())
    }
    fn int(self, n: i128) -> Result<(), TokErr> {
        self.out.push("I".into());
        self.out.push(n.to_string());
        Ok(())
    }
}

impl<'a> ser::Serializer for TokSer<'a> {
    type Ok = ();
    type Error = TokErr;
    type SerializeSeq = Compound<'a>;
    type SerializeTuple = Compound<'a>;
    type SerializeTupleStruct = Compound<'a>;
    type SerializeTupleVariant = Compound<'a>;
    type SerializeMap = Compound<'a>;
    type SerializeStruct = Compound<'a>;
    type SerializeStructVariant = Compound<'a>;

    fn serialize_bool(self, v: bool) -> Result<(), TokErr> {
        self.out.push("B".into());
        self.tok(if v { "t".into() } else { "f".into() })
    }
    fn serialize_i8(self, v: i8) -> Result<(), TokErr> { self.int(v as i128) }
    fn serialize_i16(self, v: i16) -> Result<(), TokErr> { self.int(v as i128) }
    fn serialize_i32(self, v: i32) -> Result<(), TokErr> { self.int(v as i128) }
    fn serialize_i64(self, v: i64) -> Result<(), TokErr> { self.int(v as i128) }
    fn serialize_u8(self, v: u8) -> Result<(), TokErr> { self.int(v as i128) }
    fn serialize_u16(self, v: u16) -> Result<(), TokErr> { self.int(v as i128) }
    fn serialize_u32(self, v: u32) -> Result<(), TokErr> { self.int(v as i128) }
    fn serialize_u64(self, v: u64) -> Result<(), TokErr> { self.int(v as i128) }
    fn serialize_f32(self, v: f32) -> Result<(), TokErr> {
        self.out.push("F32".into());
        self.tok(format!("{:016x}", v.to_bits()))
    }
    fn serialize_f64(self, v: f64) -> Result<(), TokErr> {
        self.out.push("F".into());
        self.tok(format!("{:016x}", v.to_bits()))
    }
    fn serialize_char(self, v: char) -> Result<(), TokErr> {
        self.out.push("C".into());
        self.tok((v as u32).to_string())
    }
    fn serialize_str(self, v: &str) -> Result<(), TokErr> {
        self.out.push("S".into());
        self.tok(print_str(v))
    }
    fn serialize_bytes(self, v: &[u8]) -> Result<(), TokErr> {
        self.out.push("Y".into());
        self.out.push("[".into());
        for b in v {
            self.out.push(b.to_string());
        }
        self.tok("]".into())
    }
    fn serialize_none(self) -> Result<(), TokErr> { self.tok("None".into()) }
    fn serialize_some<T: ?Sized + Serialize>(self, v: &T) -> Result<(), TokErr> {
        self.out.push("Some".into());
        v.serialize(TokSer { out: self.out })
    }
    fn serialize_unit(self) -> Result<(), TokErr> { self.tok("Unit".into()) }
    fn serialize_unit_struct(self, _n: &'static str) -> Result<(), TokErr> { self.tok("UStruct".into()) }
    fn serialize_unit_variant(self, _n: &'static str, _i: u32, variant: &'static str) -> Result<(), TokErr> {
        self.out.push("UVar".into());
        self.tok(print_str(variant))
    }
    fn serialize_newtype_struct<T: ?Sized + Serialize>(self, _n: &'static str, v: &T) -> Result<(), TokErr> {
        self.out.push("NStruct".into());
        v.serialize(TokSer { out: self.out })
    }
    fn serialize_newtype_variant<T: ?Sized + Serialize>(self, _n: &'static str, _i: u32, variant: &'static str, v: &T) -> Result<(), TokErr> {
        self.out.push("NVar".into());
        self.out.push(print_str(variant));
        v.serialize(TokSer { out: self.out })
    }
    fn serialize_seq(self, _len: Option<usize>) -> Result<Compound<'a>, TokErr> {
        self.out.push("Seq".into());
        self.out.push("[".into());
        Ok(Compound { out: self.out, close: "]" })
    }
    fn serialize_tuple(self, _len: usize) -> Result<Compound<'a>, TokErr> {
        self.out.push("Tup".into());
        self.out.push("[".into());
        Ok(Compound { out: self.out, close: "]" })
    }
    fn serialize_tuple_struct(self, _n: &'static str, _len: usize) -> Result<Compound<'a>, TokErr> {
        self.out.push("TStruct".into());
        self.out.push("[".into());
        Ok(Compound { out: self.out, close: "]" })
    }
    fn serialize_tuple_variant(self, _n: &'static str, _i: u32, variant: &'static str, _len: usize) -> Result<Compound<'a>, TokErr> {
        self.out.push("TVar".into());
        self.out.push(print_str(variant));
        self.out.push("[".into());
        Ok(Compound { out: self.out, close: "]" })
    }
    fn serialize_map(self, _len: Option<usize>) -> Result<Compound<'a>, TokErr> {
        self.out.push("Map".into());
        self.out.push("{".into());
        Ok(Compound { out: self.out, close: "}" })
    }
    fn serialize_struct(self, _n: &'static str, _len: usize) -> Result<Compound<'a>, TokErr> {
        self.out.push("Struct".into());
        self.out.push("{".into());
        Ok(Compound { out: self.out, close: "}" })
    }
    fn serialize_struct_variant(self, _n: &'static str, _i: u32, variant: &'static str, _len: usize) -> Result<Compound<'a>, TokErr> {
        self.out.push("SVar".into());
        self.out.push(print_str(variant));
        self.out.push("{".into());
        Ok(Compound { out: self.out, close: "}" })
    }
    fn is_human_readable(&self) -> bool {
        true
    }
}

impl<'a> Compound<'a> {
    fn elem<T: ?Sized + Serialize>(&mut self, v: &T) -> Result<(), TokErr> {
        v.serialize(TokSer { out: self.out })
    }
    fn finish(self) -> Result<(), TokErr> {
        self.out.push(self.close.into());
        Ok(())
    }
}

impl<'a> ser::SerializeSeq for Compound<'a> {
    type Ok = ();
    type Error = TokErr;
    fn serialize_element<T: ?Sized + Serialize>(&mut self, v: &T) -> Result<(), TokErr> { self.elem(v) }
    fn end(self) -> Result<(), TokErr> { self.finish() }
}
impl<'a> ser::SerializeTuple for Compound<'a> {
    type Ok = ();
    type Error = TokErr;
    fn serialize_element<T: ?Sized + Serialize>(&mut self, v: &T) -> Result<(), TokErr> { self.elem(v) }
    fn end(self) -> Result<(), TokErr> { self.finish() }
}
impl<'a> ser::SerializeTupleStruct for Compound<'a> {
    type Ok = ();
    type Error = TokErr;
    fn serialize_field<T: ?Sized + Serialize>(&mut self, v: &T) -> Result<(), TokErr> { self.elem(v) }
    fn end(self) -> Result<(), TokErr> { self.finish() }
}
impl<'a> ser::SerializeTupleVariant for Compound<'a> {
    type Ok = ();
    type Error = TokErr;
    fn serialize_field<T: ?Sized + Serialize>(&mut self, v: &T) -> Result<(), TokErr> { self.elem(v) }
    fn end(self) -> Result<(), TokErr> { self.finish() }
}
impl<'a> ser::SerializeMap for Compound<'a> {
    type Ok = ();
    type Error = TokErr;
    fn serialize_key<T: ?Sized + Serialize>(&mut self, v: &T) -> Result<(), TokErr> { self.elem(v) }
    fn serialize_value<T: ?Sized + Serialize>(&mut self, v: &T) -> Result<(), TokErr> { self.elem(v) }
    fn end(self) -> Result<(), TokErr> { self.finish() }
}
impl<'a> ser::SerializeStruct for Compound<'a> {
    type Ok = ();
    type Error = TokErr;
    fn serialize_field<T: ?Sized + Serialize>(&mut self, k: &'static str, v: &T) -> Result<(), TokErr> {
        self.out.push(print_str(k));
        self.elem(v)
    }
    fn end(self) -> Result<(), TokErr> { self.finish() }
}
impl<'a> ser::SerializeStructVariant for Compound<'a> {
    type Ok = ();
    type Error = TokErr;
    fn serialize_field<T: ?Sized + Serialize>(&mut self, k: &'static str, v: &T) -> Result<(), TokErr> {
        self.out.push(print_str(k));
        self.elem(v)
    }
    fn end(self) -> Result<(), TokErr> { self.finish() }
}
