// Wire format shared with the Coq model (coq/theories/Wire.v): ASCII tokens
// separated by single spaces, prefix notation.
use jmespath::ast::{Ast, Comparator, KeyValuePair};
use jmespath::{Rcvar, Variable};
use serde_json::Number;
use std::collections::BTreeMap;

pub struct Toks<'a> {
    pub t: Vec<&'a str>,
    pub i: usize,
}

impl<'a> Toks<'a> {
    pub fn new(line: &'a str) -> Toks<'a> {
        Toks { t: line.split(' ').filter(|s| !s.is_empty()).collect(), i: 0 }
    }
    pub fn next(&mut self) -> Option<&'a str> {
        let r = self.t.get(self.i).copied();
        self.i += 1;
        r
    }
    pub fn peek(&self) -> Option<&'a str> {
        self.t.get(self.i).copied()
    }
    pub fn done(&self) -> bool {
        self.i >= self.t.len()
    }
}

pub fn parse_str(t: &str) -> Option<String> {
    let r = t.strip_prefix('"')?;
    if r.is_empty() {
        return Some(String::new());
    }
    let mut s = String::new();
    for p in r.split(',') {
        let cp: u32 = p.parse().ok()?;
        s.push(char::from_u32(cp)?);
    }
    Some(s)
}

pub fn print_str(s: &str) -> String {
    let mut out = String::from("\"");
    let mut first = true;
    for c in s.chars() {
        if !first {
            out.push(',');
        }
        first = false;
        out.push_str(&(c as u32).to_string());
    }
    out
}

pub fn parse_optint(t: &str) -> Option<Option<i32>> {
    if t == "_" {
        Some(None)
    } else {
        t.parse::<i32>().ok().map(Some)
    }
}

pub fn rd_value(ts: &mut Toks) -> Option<Variable> {
    let t = ts.next()?;
    let b = t.as_bytes();
    match b[0] {
        b'n' if t == "n" => Some(Variable::Null),
        b't' if t == "t" => Some(Variable::Bool(true)),
        b'f' if t == "f" => Some(Variable::Bool(false)),
        b'u' => t[1..].parse::<u64>().ok().map(|n| Variable::Number(Number::from(n))),
        b'i' => t[1..].parse::<i64>().ok().map(|n| Variable::Number(Number::from(n))),
        b'd' => {
            let bits = u64::from_str_radix(&t[1..], 16).ok()?;
            Number::from_f64(f64::from_bits(bits)).map(Variable::Number)
        }
        b'"' => parse_str(t).map(Variable::String),
        b'[' => {
            let mut v = vec![];
            loop {
                if ts.peek()? == "]" {
                    ts.next();
                    break;
                }
                v.push(Rcvar::new(rd_value(ts)?));
            }
            Some(Variable::Array(v))
        }
        b'{' => {
            let mut m = BTreeMap::new();
            loop {
                if ts.peek()? == "}" {
                    ts.next();
                    break;
                }
                let k = parse_str(ts.next()?)?;
                let v = rd_value(ts)?;
                m.insert(k, Rcvar::new(v));
            }
            Some(Variable::Object(m))
        }
        b'&' => rd_ast(ts).map(Variable::Expref),
        _ => None,
    }
}

fn bx(a: Ast) -> Box<Ast> {
    Box::new(a)
}

pub fn rd_asts(ts: &mut Toks) -> Option<Vec<Ast>> {
    if ts.next()? != "[" {
        return None;
    }
    let mut v = vec![];
    loop {
        if ts.peek()? == "]" {
            ts.next();
            break;
        }
        v.push(rd_ast(ts)?);
    }
    Some(v)
}

pub fn rd_ast(ts: &mut Toks) -> Option<Ast> {
    let t = ts.next()?;
    let offset = 0usize;
    Some(match t {
        "Identity" => Ast::Identity { offset },
        "Field" => Ast::Field { offset, name: parse_str(ts.next()?)? },
        "Index" => Ast::Index { offset, idx: ts.next()?.parse().ok()? },
        "Literal" => Ast::Literal { offset, value: Rcvar::new(rd_value(ts)?) },
        "Subexpr" => { let l = rd_ast(ts)?; let r = rd_ast(ts)?; Ast::Subexpr { offset, lhs: bx(l), rhs: bx(r) } }
        "Or" => { let l = rd_ast(ts)?; let r = rd_ast(ts)?; Ast::Or { offset, lhs: bx(l), rhs: bx(r) } }
        "And" => { let l = rd_ast(ts)?; let r = rd_ast(ts)?; Ast::And { offset, lhs: bx(l), rhs: bx(r) } }
        "Cond" => { let l = rd_ast(ts)?; let r = rd_ast(ts)?; Ast::Condition { offset, predicate: bx(l), then: bx(r) } }
        "Proj" => { let l = rd_ast(ts)?; let r = rd_ast(ts)?; Ast::Projection { offset, lhs: bx(l), rhs: bx(r) } }
        "Not" => Ast::Not { offset, node: bx(rd_ast(ts)?) },
        "Values" => Ast::ObjectValues { offset, node: bx(rd_ast(ts)?) },
        "Flatten" => Ast::Flatten { offset, node: bx(rd_ast(ts)?) },
        "Expref" => Ast::Expref { offset, ast: bx(rd_ast(ts)?) },
        "Cmp" => {
            let c = parse_cmp(ts.next()?)?;
            let l = rd_ast(ts)?;
            let r = rd_ast(ts)?;
            Ast::Comparison { offset, comparator: c, lhs: bx(l), rhs: bx(r) }
        }
        "MList" => Ast::MultiList { offset, elements: rd_asts(ts)? },
        "MHash" => {
            if ts.next()? != "{" {
                return None;
            }
            let mut v = vec![];
            loop {
                if ts.peek()? == "}" {
                    ts.next();
                    break;
                }
                let k = parse_str(ts.next()?)?;
                let a = rd_ast(ts)?;
                v.push(KeyValuePair { key: k, value: a });
            }
            Ast::MultiHash { offset, elements: v }
        }
        "Fn" => {
            let o: usize = ts.next()?.parse().ok()?;
            let n = parse_str(ts.next()?)?;
            Ast::Function { offset: o, name: n, args: rd_asts(ts)? }
        }
        "Slice" => {
            let o: usize = ts.next()?.parse().ok()?;
            let a = parse_optint(ts.next()?)?;
            let b = parse_optint(ts.next()?)?;
            let c: i32 = ts.next()?.parse().ok()?;
            Ast::Slice { offset: o, start: a, stop: b, step: c }
        }
        _ => return None,
    })
}

pub fn parse_cmp(t: &str) -> Option<Comparator> {
    Some(match t {
        "eq" => Comparator::Equal,
        "ne" => Comparator::NotEqual,
        "lt" => Comparator::LessThan,
        "le" => Comparator::LessThanEqual,
        "gt" => Comparator::GreaterThan,
        "ge" => Comparator::GreaterThanEqual,
        _ => return None,
    })
}

fn print_cmp(c: &Comparator) -> &'static str {
    match c {
        Comparator::Equal => "eq",
        Comparator::NotEqual => "ne",
        Comparator::LessThan => "lt",
        Comparator::LessThanEqual => "le",
        Comparator::GreaterThan => "gt",
        Comparator::GreaterThanEqual => "ge",
    }
}

pub fn pr_value(v: &Variable, out: &mut Vec<String>) {
    match v {
        Variable::Null => out.push("n".into()),
        Variable::Bool(true) => out.push("t".into()),
        Variable::Bool(false) => out.push("f".into()),
        Variable::Number(n) => {
            if let Some(u) = n.as_u64() {
                out.push(format!("u{}", u))
            } else if let Some(i) = n.as_i64() {
                out.push(format!("i{}", i))
            } else {
                out.push(format!("d{:016x}", n.as_f64().map(f64::to_bits).unwrap_or(0x7ff8_0000_0000_0001)))
            }
        }
        Variable::String(s) => out.push(print_str(s)),
        Variable::Array(a) => {
            out.push("[".into());
            for x in a {
                pr_value(x, out);
            }
            out.push("]".into());
        }
        Variable::Object(m) => {
            out.push("{".into());
            for (k, x) in m {
                out.push(print_str(k));
                pr_value(x, out);
            }
            out.push("}".into());
        }
        Variable::Expref(a) => {
            out.push("&".into());
            pr_ast(a, out);
        }
    }
}

fn optint(o: &Option<i32>) -> String {
    match o {
        None => "_".into(),
        Some(z) => z.to_string(),
    }
}

pub fn pr_ast(a: &Ast, out: &mut Vec<String>) {
    match a {
        Ast::Identity { .. } => out.push("Identity".into()),
        Ast::Field { name, .. } => {
            out.push("Field".into());
            out.push(print_str(name));
        }
        Ast::Index { idx, .. } => {
            out.push("Index".into());
            out.push(idx.to_string());
        }
        Ast::Literal { value, .. } => {
            out.push("Literal".into());
            pr_value(value, out);
        }
        Ast::Subexpr { lhs, rhs, .. } => { out.push("Subexpr".into()); pr_ast(lhs, out); pr_ast(rhs, out); }
        Ast::Or { lhs, rhs, .. } => { out.push("Or".into()); pr_ast(lhs, out); pr_ast(rhs, out); }
        Ast::And { lhs, rhs, .. } => { out.push("And".into()); pr_ast(lhs, out); pr_ast(rhs, out); }
        Ast::Condition { predicate, then, .. } => { out.push("Cond".into()); pr_ast(predicate, out); pr_ast(then, out); }
        Ast::Projection { lhs, rhs, .. } => { out.push("Proj".into()); pr_ast(lhs, out); pr_ast(rhs, out); }
        Ast::Not { node, .. } => { out.push("Not".into()); pr_ast(node, out); }
        Ast::ObjectValues { node, .. } => { out.push("Values".into()); pr_ast(node, out); }
        Ast::Flatten { node, .. } => { out.push("Flatten".into()); pr_ast(node, out); }
        Ast::Expref { ast, .. } => { out.push("Expref".into()); pr_ast(ast, out); }
        Ast::Comparison { comparator, lhs, rhs, .. } => {
            out.push("Cmp".into());
            out.push(print_cmp(comparator).into());
            pr_ast(lhs, out);
            pr_ast(rhs, out);
        }
        Ast::MultiList { elements, .. } => {
            out.push("MList".into());
            out.push("[".into());
            for e in elements {
                pr_ast(e, out);
            }
            out.push("]".into());
        }
        Ast::MultiHash { elements, .. } => {
            out.push("MHash".into());
            out.push("{".into());
            for e in elements {
                out.push(print_str(&e.key));
                pr_ast(&e.value, out);
            }
            out.push("}".into());
        }
        Ast::Function { offset, name, args } => {
            out.push("Fn".into());
            out.push(offset.to_string());
            out.push(print_str(name));
            out.push("[".into());
            for e in args {
                pr_ast(e, out);
            }
            out.push("]".into());
        }
        Ast::Slice { offset, start, stop, step } => {
            out.push("Slice".into());
            out.push(offset.to_string());
            out.push(optint(start));
            out.push(optint(stop));
            out.push(step.to_string());
        }
    }
}
