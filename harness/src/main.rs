// Implementation side of the correspondence check: reads one case per line on
// stdin, runs it against the jmespath crate built from /repo's working tree,
// prints one canonical observation per line.
mod extra;
mod tokser;
mod wire;

use jmespath::ast::Ast;
use jmespath::{Context, ErrorReason, Expression, JmespathError, Rcvar, Runtime, RuntimeError, Variable, DEFAULT_RUNTIME};
use jmespath::functions::{ArgumentType, CustomFunction, Signature};
use std::collections::HashMap;
use std::io::{BufRead, Write};
use std::panic::{catch_unwind, AssertUnwindSafe};
use wire::*;

fn pr_val_line(v: &Variable) -> String {
    let mut out = vec!["OK".to_string()];
    pr_value(v, &mut out);
    out.join(" ")
}

fn pr_ast_line(a: &Ast) -> String {
    let mut out = vec!["OK".to_string()];
    pr_ast(a, &mut out);
    out.join(" ")
}

// The rendered message as C12 specifies it: "<reason> (line L, column C)\n", then the expression with a caret line
// (C spaces and a '^') placed right after line L; when line L has no terminating newline one is added first.
fn render_spec(e: &JmespathError) -> String {
    let mut out = format!("{} (line {}, column {})\n", e.reason, e.line, e.column);
    let caret = format!("{}^\n", " ".repeat(e.column));
    let mut placed = false;
    let mut ended = 0usize;
    for piece in e.expression.split_inclusive('\n') {
        out.push_str(piece);
        if piece.ends_with('\n') {
            ended += 1;
            if ended == e.line + 1 && !placed {
                placed = true;
                out.push_str(&caret);
            }
        }
    }
    if !placed {
        out.push('\n');
        out.push_str(&caret);
    }
    out
}

// `stage_parse`: the error came out of compile (true) or out of search (false).
fn pr_err(e: &JmespathError, stage_parse: bool) -> String {
    let r = pr_err_core(e, stage_parse);
    let prefix_ok = match &e.reason {
        ErrorReason::Parse(_) => e.to_string().starts_with("Parse error: "),
        ErrorReason::Runtime(_) => e.to_string().starts_with("Runtime error: "),
    };
    if e.to_string() == render_spec(e) && prefix_ok {
        format!("{} RENDER ok", r)
    } else {
        format!("{} RENDER bad", r)
    }
}

fn pr_err_core(e: &JmespathError, stage_parse: bool) -> String {
    match &e.reason {
        ErrorReason::Parse(_) => {
            if stage_parse {
                format!("ERR parse {} {} {}", e.offset, e.line, e.column)
            } else {
                "ERR fabricated".to_string()
            }
        }
        ErrorReason::Runtime(r) => {
            let (k, payload) = match r {
                RuntimeError::InvalidSlice => ("invalid-slice", vec![]),
                RuntimeError::TooManyArguments { expected, actual } => {
                    ("too-many", vec![expected.to_string(), actual.to_string()])
                }
                RuntimeError::NotEnoughArguments { expected, actual } => {
                    ("not-enough", vec![expected.to_string(), actual.to_string()])
                }
                RuntimeError::UnknownFunction(n) => ("unknown-function", vec![print_str(n)]),
                RuntimeError::InvalidType { expected, actual, position } => {
                    ("invalid-type", vec![print_str(expected), print_str(actual), position.to_string()])
                }
                RuntimeError::InvalidReturnType { expected, actual, position, invocation } => (
                    "invalid-return-type",
                    vec![print_str(expected), print_str(actual), position.to_string(), invocation.to_string()],
                ),
            };
            let mut s = format!("ERR runtime {} {} {} {}", k, e.offset, e.line, e.column);
            for p in payload {
                s.push(' ');
                s.push_str(&p);
            }
            s
        }
    }
}

fn search_result(r: Result<Rcvar, JmespathError>) -> String {
    match r {
        Ok(v) => pr_val_line(&v),
        Err(e) => pr_err(&e, false),
    }
}

fn parse_argtype(t: &str) -> Option<ArgumentType> {
    Some(match t {
        "any" => ArgumentType::Any,
        "null" => ArgumentType::Null,
        "string" => ArgumentType::String,
        "number" => ArgumentType::Number,
        "bool" => ArgumentType::Bool,
        "object" => ArgumentType::Object,
        "array" => ArgumentType::Array,
        "expref" => ArgumentType::Expref,
        "an" => ArgumentType::TypedArray(Box::new(ArgumentType::Number)),
        "as" => ArgumentType::TypedArray(Box::new(ArgumentType::String)),
        "aan" => ArgumentType::TypedArray(Box::new(ArgumentType::TypedArray(Box::new(ArgumentType::Number)))),
        "ans" => ArgumentType::TypedArray(Box::new(ArgumentType::Union(vec![ArgumentType::Number, ArgumentType::String]))),
        "aany" => ArgumentType::TypedArray(Box::new(ArgumentType::Any)),
        "aaa" => ArgumentType::TypedArray(Box::new(ArgumentType::Array)),
        "uns" => ArgumentType::Union(vec![ArgumentType::Number, ArgumentType::String]),
        "uao" => ArgumentType::Union(vec![ArgumentType::TypedArray(Box::new(ArgumentType::Number)), ArgumentType::Object]),
        _ => return None,
    })
}

fn custom_fn(id: i64) -> Box<dyn Fn(&[Rcvar], &mut Context<'_>) -> Result<Rcvar, JmespathError> + Sync + Send> {
    Box::new(move |args: &[Rcvar], _ctx: &mut Context<'_>| {
        Ok(Rcvar::new(Variable::Array(vec![
            Rcvar::new(Variable::Number(serde_json::Number::from(id))),
            Rcvar::new(Variable::Array(args.to_vec())),
        ])))
    })
}

// Operation histories over runtimes and compiled expressions (C13, C15).
// A runtime can be mutated until the first expression is compiled from it; it is then
// leaked into a shared reference (the borrow checker forbids later mutation anyway).
fn run_hist(ts: &mut Toks) -> Option<String> {
    let mut open: HashMap<i64, Box<Runtime>> = HashMap::new();
    let mut frozen: HashMap<i64, &'static Runtime> = HashMap::new();
    let mut exprs: HashMap<i64, Expression<'static>> = HashMap::new();
    // purity on the complete outcome (every field of an error, message and expression text included): (runtime, text, document) -> Debug of the result
    let mut origin: HashMap<i64, (i64, String)> = HashMap::new();
    let mut generation: i64 = 0;       // a runtime id can be given to a new runtime: (id, generation) names the runtime an expression was compiled on
    let mut gen_of: HashMap<i64, i64> = HashMap::new();
    let mut seen: HashMap<(i64, String, String), String> = HashMap::new();
    let mut obs: Vec<String> = vec![];
    let all: Vec<&str> = ts.t[ts.i..].to_vec();
    for op in all.split(|t| *t == ";") {
        let mut o = Toks { t: op.to_vec(), i: 0 };
        let k = o.next()?;
        match k {
            "new" => {
                let r: i64 = o.next()?.parse().ok()?;
                frozen.remove(&r);
                generation += 1;
                gen_of.insert(r, generation);
                open.insert(r, Box::new(Runtime::new()));
                obs.push("-".into());
            }
            "reg" => {
                let r: i64 = o.next()?.parse().ok()?;
                let name = parse_str(o.next()?)?;
                let id: i64 = o.next()?.parse().ok()?;
                let first = o.next()?;
                let f: Box<dyn jmespath::functions::Function> = if first == "-" {
                    Box::new(custom_fn(id))
                } else {
                    let mut inputs = vec![];
                    loop {
                        let t = o.next()?;
                        if t == "/" {
                            break;
                        }
                        inputs.push(parse_argtype(t)?);
                    }
                    let v = o.next()?;
                    let variadic = if v == "_" { None } else { Some(parse_argtype(v)?) };
                    Box::new(CustomFunction::new(Signature::new(inputs, variadic), custom_fn(id)))
                };
                match open.get_mut(&r) {
                    Some(rt) => {
                        rt.register_function(&name, f);
                        obs.push("-".into())
                    }
                    None => obs.push("BAD".into()),
                }
            }
            "dereg" => {
                let r: i64 = o.next()?.parse().ok()?;
                let name = parse_str(o.next()?)?;
                match open.get_mut(&r) {
                    Some(rt) => {
                        rt.deregister_function(&name);
                        obs.push("-".into())
                    }
                    None => obs.push("BAD".into()),
                }
            }
            "regb" => {
                let r: i64 = o.next()?.parse().ok()?;
                match open.get_mut(&r) {
                    Some(rt) => {
                        rt.register_builtin_functions();
                        obs.push("-".into())
                    }
                    None => obs.push("BAD".into()),
                }
            }
            "get" => {
                let r: i64 = o.next()?.parse().ok()?;
                let name = parse_str(o.next()?)?;
                let rt: Option<&Runtime> = if r == 0 {
                    Some(&*DEFAULT_RUNTIME)
                } else if let Some(rt) = open.get(&r) {
                    Some(&**rt)
                } else {
                    frozen.get(&r).copied()
                };
                match rt {
                    Some(rt) => obs.push(if rt.get_function(&name).is_some() { "t".into() } else { "f".into() }),
                    None => obs.push("BAD".into()),
                }
            }
            "compile" => {
                let h: i64 = o.next()?.parse().ok()?;
                let r: i64 = o.next()?.parse().ok()?;
                let text = parse_str(o.next()?)?;
                if r != 0 {
                    if let Some(b) = open.remove(&r) {
                        frozen.insert(r, Box::leak(b));
                    }
                }
                let rt: Option<&'static Runtime> = if r == 0 { Some(&*DEFAULT_RUNTIME) } else { frozen.get(&r).copied() };
                match rt {
                    Some(rt) => match rt.compile(&text) {
                        Ok(e) => {
                            // the compiled tree (with its offsets) is part of the observation
                            obs.push(pr_ast_line(e.as_ast()));
                            exprs.insert(h, e);
                            origin.insert(h, (r * 1_000_000 + gen_of.get(&r).copied().unwrap_or(0), text.clone()));
                        }
                        Err(e) => {
                            exprs.remove(&h);
                            obs.push(pr_err(&e, true))
                        }
                    },
                    None => obs.push("BAD".into()),
                }
            }
            "clone" => {
                let h2: i64 = o.next()?.parse().ok()?;
                let h: i64 = o.next()?.parse().ok()?;
                match exprs.get(&h).cloned() {
                    Some(e) => {
                        exprs.insert(h2, e);
                        if let Some(o) = origin.get(&h).cloned() {
                            origin.insert(h2, o);
                        }
                        obs.push("-".into())
                    }
                    None => obs.push("BAD".into()),
                }
            }
            "drop" => {
                let h: i64 = o.next()?.parse().ok()?;
                exprs.remove(&h);
                obs.push("-".into());
            }
            "search" => {
                let h: i64 = o.next()?.parse().ok()?;
                let d = rd_value(&mut o)?;
                match exprs.get(&h) {
                    Some(e) => {
                        let shared = Rcvar::new(d);
                        let before = format!("{:?}", shared);
                        let r = e.search(shared.clone());
                        let after = format!("{:?}", shared);
                        let full = format!("{:?}", r);
                        let key = origin.get(&h).map(|(rt, text)| (*rt, text.clone(), before.clone()));
                        let same = match key {
                            Some(k) => *seen.entry(k).or_insert_with(|| full.clone()) == full,
                            None => true,
                        };
                        if before != after {
                            obs.push("MUTATED".into())
                        } else if !same {
                            obs.push("IMPURE".into())
                        } else {
                            obs.push(search_result(r))
                        }
                    }
                    None => obs.push("BAD".into()),
                }
            }
            _ => return None,
        }
    }
    Some(obs.join(" ; "))
}

#[cfg(feature = "sync")]
fn assert_send_sync<T: Send + Sync>() {}

// threads <n> <rounds> <expr> <doc> (sync builds only): n threads released together, each compiling
// through the shared default runtime and searching a shared compiled expression on a shared value.
#[cfg(feature = "sync")]
fn run_threads(ts: &mut Toks) -> Option<String> {
    use std::sync::{Arc, Barrier};
    assert_send_sync::<Expression<'static>>();
    assert_send_sync::<Runtime>();
    assert_send_sync::<Variable>();
    assert_send_sync::<Rcvar>();
    assert_send_sync::<JmespathError>();
    assert_send_sync::<Ast>();
    let n: usize = ts.next()?.parse().ok()?;
    let rounds: usize = ts.next()?.parse().ok()?;
    let text = parse_str(ts.next()?)?;
    let doc = Rcvar::new(rd_value(ts)?);
    let barrier = Arc::new(Barrier::new(n));
    let mut handles = vec![];
    // deliberately NOT touching DEFAULT_RUNTIME before the threads start: its first use is part of the race
    let shared: Arc<std::sync::Mutex<Option<Arc<Expression<'static>>>>> = Arc::new(std::sync::Mutex::new(None));
    for _ in 0..n {
        let b = barrier.clone();
        let text = text.clone();
        let doc = doc.clone();
        let shared = shared.clone();
        handles.push(std::thread::spawn(move || {
            b.wait();
            let mut seen: Vec<String> = vec![];
            for _ in 0..rounds {
                let o = match jmespath::compile(&text) {
                    Ok(e) => {
                        let o = search_result(e.search(doc.clone()));
                        let mut g = shared.lock().unwrap();
                        if g.is_none() {
                            *g = Some(Arc::new(e));
                        }
                        o
                    }
                    Err(e) => pr_err(&e, true),
                };
                if !seen.contains(&o) {
                    seen.push(o);
                }
                let se = shared.lock().unwrap().clone();
                if let Some(e) = se {
                    let o2 = search_result(e.search(doc.clone()));
                    if !seen.contains(&o2) {
                        seen.push(o2);
                    }
                }
            }
            seen
        }));
    }
    let mut all: Vec<String> = vec![];
    for h in handles {
        match h.join() {
            Ok(seen) => {
                for o in seen {
                    if !all.contains(&o) {
                        all.push(o);
                    }
                }
            }
            Err(_) => return Some("PANIC in thread".to_string()),
        }
    }
    let seq = match jmespath::compile(&text) {
        Ok(e) => search_result(e.search(doc.clone())),
        Err(e) => pr_err(&e, true),
    };
    if all.len() == 1 && all[0] == seq {
        Some(seq)
    } else {
        Some(format!("DIVERGED sequential: {} concurrent: {}", seq, all.join(" || ")))
    }
}

#[cfg(not(feature = "sync"))]
fn run_threads(_ts: &mut Toks) -> Option<String> {
    Some("NOSYNC".to_string())
}

fn run_case(line: &str) -> Option<String> {
    let mut ts = Toks::new(line);
    let kind = ts.next()?;
    match kind {
        "slice" => {
            let v = rd_value(&mut ts)?;
            let a = parse_optint(ts.next()?)?;
            let b = parse_optint(ts.next()?)?;
            let c: i32 = ts.next()?.parse().ok()?;
            Some(match v.slice(a, b, c) {
                Some(r) => pr_val_line(&Variable::Array(r)),
                None => pr_val_line(&Variable::Null),
            })
        }
        "index" => {
            let v = rd_value(&mut ts)?;
            let n: i32 = ts.next()?.parse().ok()?;
            // What interpreter.rs does for an Index node, through the public accessors.
            let r = if n >= 0 { v.get_index(n as usize) } else { v.get_negative_index((-n) as usize) };
            Some(pr_val_line(&r))
        }
        "evalast" => {
            let text = parse_str(ts.next()?)?;
            let ast = rd_ast(&mut ts)?;
            let doc = rd_value(&mut ts)?;
            let e = Expression::new(text, ast, &*DEFAULT_RUNTIME);
            Some(search_result(e.search(Rcvar::new(doc))))
        }
        "cmp" => {
            let c = parse_cmp(ts.next()?)?;
            let a = rd_value(&mut ts)?;
            let b = rd_value(&mut ts)?;
            Some(match a.compare(&c, &b) {
                Some(r) => pr_val_line(&Variable::Bool(r)),
                None => pr_val_line(&Variable::Null),
            })
        }
        "truthy" => {
            let a = rd_value(&mut ts)?;
            Some(pr_val_line(&Variable::Bool(a.is_truthy())))
        }
        "render" => {
            // Display of a JmespathError with these (public) fields: everything after the first line is the location block
            let text = parse_str(ts.next()?)?;
            let line: usize = ts.next()?.parse().ok()?;
            let column: usize = ts.next()?.parse().ok()?;
            let e = JmespathError {
                offset: 0,
                line,
                column,
                expression: text,
                reason: ErrorReason::Parse("x".to_string()),
            };
            let shown = e.to_string();
            let head = format!("Parse error: x (line {}, column {})\n", line, column);
            Some(match shown.strip_prefix(head.as_str()) {
                Some(block) => format!("OK {}", print_str(block)),
                None => "OK BADHEAD".to_string(),
            })
        }
        "parse" => {
            let text = parse_str(ts.next()?)?;
            Some(match jmespath::parse(&text) {
                Ok(a) => pr_ast_line(&a),
                Err(e) => pr_err(&e, true),
            })
        }
        "search" => {
            let text = parse_str(ts.next()?)?;
            let doc = rd_value(&mut ts)?;
            Some(match jmespath::compile(&text) {
                Ok(e) => search_result(e.search(Rcvar::new(doc))),
                Err(e) => pr_err(&e, true),
            })
        }
        "astdebug" => {
            // what `jp --ast` is specified to print: the library's tree, pretty Debug form, plus a newline
            let text = parse_str(ts.next()?)?;
            Some(match jmespath::compile(&text) {
                Ok(e) => format!("OK {}", print_str(&format!("{:#?}\n", e.as_ast()))),
                Err(e) => pr_err(&e, true),
            })
        }
        "threads" => run_threads(&mut ts),
        "hist" => run_hist(&mut ts),
        "json" => extra::run_json(&mut ts),
        "ser" | "serx" => extra::run_ser(&mut ts),
        "de" => extra::run_de(&mut ts),
        "dex" => extra::run_dex(&mut ts),
        "conv" => extra::run_conv(&mut ts),
        "fn" => {
            // fn <offset> <name> <arg>* : evaluate a registered function on argument values
            let off: usize = ts.next()?.parse().ok()?;
            let name = parse_str(ts.next()?)?;
            let mut args = vec![];
            while !ts.done() {
                args.push(Rcvar::new(rd_value(&mut ts)?));
            }
            let rt: &Runtime = &*DEFAULT_RUNTIME;
            let mut ctx = Context::new("", rt);
            ctx.offset = off;
            Some(match rt.get_function(&name) {
                Some(f) => search_result(f.evaluate(&args, &mut ctx)),
                None => "ERR nofunction".to_string(),
            })
        }
        _ => None,
    }
}

fn main() {
    std::panic::set_hook(Box::new(|_| {}));
    let stdin = std::io::stdin();
    let stdout = std::io::stdout();
    let mut out = stdout.lock();
    for line in stdin.lock().lines() {
        let line = line.unwrap();
        let r = catch_unwind(AssertUnwindSafe(|| run_case(&line)));
        let s = match r {
            Ok(Some(s)) => s,
            Ok(None) => "BADCASE".to_string(),
            Err(p) => {
                let msg = if let Some(s) = p.downcast_ref::<&str>() {
                    s.to_string()
                } else if let Some(s) = p.downcast_ref::<String>() {
                    s.clone()
                } else {
                    "?".to_string()
                };
                format!("PANIC {}", msg.lines().next().unwrap_or(""))
            }
        };
        writeln!(out, "{}", s).unwrap();
        out.flush().unwrap();
    }
}
