// Implementation side of the correspondence check: reads one case per line on
// stdin, runs it against the jmespath crate built from /repo's working tree,
// prints one canonical observation per line.
mod wire;

use jmespath::ast::Ast;
use jmespath::{Context, ErrorReason, Expression, JmespathError, Rcvar, Runtime, RuntimeError, Variable, DEFAULT_RUNTIME};
use std::io::{BufRead, Write};
use std::panic::{catch_unwind, AssertUnwindSafe};
use wire::*;

fn pr_val_line(v: &Variable) -> String {
    let mut out = vec!["OK".to_string()];
    pr_value(v, &mut out);
    out.join(" ")
}

fn pr_ast_line(a: &Ast) -> String {
    let mut out = vec!["OK".to_string()];
    pr_ast(a, &mut out);
    out.join(" ")
}

// `stage_parse`: the error came out of compile (true) or out of search (false).
fn pr_err(e: &JmespathError, stage_parse: bool) -> String {
    match &e.reason {
        ErrorReason::Parse(_) => {
            if stage_parse {
                format!("ERR parse {} {} {}", e.offset, e.line, e.column)
            } else {
                "ERR fabricated".to_string()
            }
        }
        ErrorReason::Runtime(r) => {
            let (k, payload) = match r {
                RuntimeError::InvalidSlice => ("invalid-slice", vec![]),
                RuntimeError::TooManyArguments { expected, actual } => {
                    ("too-many", vec![expected.to_string(), actual.to_string()])
                }
                RuntimeError::NotEnoughArguments { expected, actual } => {
                    ("not-enough", vec![expected.to_string(), actual.to_string()])
                }
                RuntimeError::UnknownFunction(n) => ("unknown-function", vec![print_str(n)]),
                RuntimeError::InvalidType { expected, actual, position } => {
                    ("invalid-type", vec![print_str(expected), print_str(actual), position.to_string()])
                }
                RuntimeError::InvalidReturnType { expected, actual, position, invocation } => (
                    "invalid-return-type",
                    vec![print_str(expected), print_str(actual), position.to_string(), invocation.to_string()],
                ),
            };
            let mut s = format!("ERR runtime {} {} {} {}", k, e.offset, e.line, e.column);
            for p in payload {
                s.push(' ');
                s.push_str(&p);
            }
            s
        }
    }
}

fn search_result(r: Result<Rcvar, JmespathError>) -> String {
    match r {
        Ok(v) => pr_val_line(&v),
        Err(e) => pr_err(&e, false),
    }
}

fn run_case(line: &str) -> Option<String> {
    let mut ts = Toks::new(line);
    let kind = ts.next()?;
    match kind {
        "slice" => {
            let v = rd_value(&mut ts)?;
            let a = parse_optint(ts.next()?)?;
            let b = parse_optint(ts.next()?)?;
            let c: i32 = ts.next()?.parse().ok()?;
            Some(match v.slice(a, b, c) {
                Some(r) => pr_val_line(&Variable::Array(r)),
                None => pr_val_line(&Variable::Null),
            })
        }
        "index" => {
            let v = rd_value(&mut ts)?;
            let n: i32 = ts.next()?.parse().ok()?;
            // What interpreter.rs does for an Index node, through the public accessors.
            let r = if n >= 0 { v.get_index(n as usize) } else { v.get_negative_index((-n) as usize) };
            Some(pr_val_line(&r))
        }
        "evalast" => {
            let text = parse_str(ts.next()?)?;
            let ast = rd_ast(&mut ts)?;
            let doc = rd_value(&mut ts)?;
            let e = Expression::new(text, ast, &*DEFAULT_RUNTIME);
            Some(search_result(e.search(Rcvar::new(doc))))
        }
        "cmp" => {
            let c = parse_cmp(ts.next()?)?;
            let a = rd_value(&mut ts)?;
            let b = rd_value(&mut ts)?;
            Some(match a.compare(&c, &b) {
                Some(r) => pr_val_line(&Variable::Bool(r)),
                None => pr_val_line(&Variable::Null),
            })
        }
        "truthy" => {
            let a = rd_value(&mut ts)?;
            Some(pr_val_line(&Variable::Bool(a.is_truthy())))
        }
        "parse" => {
            let text = parse_str(ts.next()?)?;
            Some(match jmespath::parse(&text) {
                Ok(a) => pr_ast_line(&a),
                Err(e) => pr_err(&e, true),
            })
        }
        "search" => {
            let text = parse_str(ts.next()?)?;
            let doc = rd_value(&mut ts)?;
            Some(match jmespath::compile(&text) {
                Ok(e) => search_result(e.search(Rcvar::new(doc))),
                Err(e) => pr_err(&e, true),
            })
        }
        "fn" => {
            // fn <offset> <name> <arg>* : evaluate a registered function on argument values
            let off: usize = ts.next()?.parse().ok()?;
            let name = parse_str(ts.next()?)?;
            let mut args = vec![];
            while !ts.done() {
                args.push(Rcvar::new(rd_value(&mut ts)?));
            }
            let rt: &Runtime = &*DEFAULT_RUNTIME;
            let mut ctx = Context::new("", rt);
            ctx.offset = off;
            Some(match rt.get_function(&name) {
                Some(f) => search_result(f.evaluate(&args, &mut ctx)),
                None => "ERR nofunction".to_string(),
            })
        }
        _ => None,
    }
}

fn main() {
    std::panic::set_hook(Box::new(|_| {}));
    let stdin = std::io::stdin();
    let stdout = std::io::stdout();
    let mut out = stdout.lock();
    for line in stdin.lock().lines() {
        let line = line.unwrap();
        let r = catch_unwind(AssertUnwindSafe(|| run_case(&line)));
        let s = match r {
            Ok(Some(s)) => s,
            Ok(None) => "BADCASE".to_string(),
            Err(p) => {
                let msg = if let Some(s) = p.downcast_ref::<&str>() {
                    s.to_string()
                } else if let Some(s) = p.downcast_ref::<String>() {
                    s.clone()
                } else {
                    "?".to_string()
                };
                format!("PANIC {}", msg.lines().next().unwrap_or(""))
            }
        };
        writeln!(out, "{}", s).unwrap();
        out.flush().unwrap();
    }
}
