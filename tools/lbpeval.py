"""Symbolic evaluation of `fn f(&self) -> usize` / `-> bool` over the variants of an enum (used for Token::lbp)."""
import re


class NotUnderstood(Exception):
    pass


def _balanced(txt, i, o, c):
    depth, j, n = 0, i, len(txt)
    while j < n:
        ch = txt[j]
        if ch == '"':
            j += 1
            while j < n and txt[j] != '"':
                j += 2 if txt[j] == "\\" else 1
        elif ch == o:
            depth += 1
        elif ch == c:
            depth -= 1
            if depth == 0:
                return j + 1
        j += 1
    raise NotUnderstood("unbalanced")


def _split_top(txt, seps):
    """split at top-level occurrences of any of the separator strings (longest first)"""
    out, depth, cur, i = [], 0, "", 0
    seps = sorted(seps, key=len, reverse=True)
    while i < len(txt):
        ch = txt[i]
        if ch in "([{":
            depth += 1
        elif ch in ")]}":
            depth -= 1
        if depth == 0:
            for sp in seps:
                if txt.startswith(sp, i) and not (sp == "|" and (txt.startswith("||", i) or (i > 0 and txt[i - 1] == "|"))):
                    out.append(cur)
                    cur = ""
                    i += len(sp)
                    break
            else:
                cur += ch
                i += 1
            continue
        cur += ch
        i += 1
    out.append(cur)
    return out


INT_TYPES = ("usize", "isize", "u8", "u16", "u32", "u64", "u128", "i8", "i16", "i32", "i64", "i128")


def unit_enums(whole, const_eval, env, skip):
    """{enum name: {variant: discriminant}} for the field-less enums of the crate (explicit discriminants, else previous + 1)"""
    out = {}
    for m in re.finditer(r"\benum\s+(\w+)\s*\{", whole):
        i = whole.index("{", m.end() - 1)
        try:
            j = _balanced(whole, i, "{", "}")
        except Exception:
            continue
        body = re.sub(r"//[^\n]*|/\*.*?\*/", "", whole[i + 1:j - 1], flags=re.S)
        body = re.sub(r"#\[[^\]]*\]", "", body)
        tab, nxt, ok = {}, 0, True
        for item in _split_top(body, [","]):
            it = item.strip()
            if not it:
                continue
            mm = re.fullmatch(r"(\w+)(?:\s*=\s*(.+))?", it, re.S)
            if not mm:
                ok = False
                break
            if mm.group(2) is not None:
                v = const_eval(mm.group(2), env)
                if v is None:
                    ok = False
                    break
                nxt = v
            tab[mm.group(1)] = nxt
            nxt += 1
        if ok and tab and set(tab) != set(skip):
            out[m.group(1)] = tab
    return out


class Ev:
    def __init__(self, whole, const_eval, env, variants):
        self.whole, self.const_eval, self.env, self.variants = whole, const_eval, dict(env), variants
        self.depth = 0
        self.enums = unit_enums(whole, const_eval, self.env, variants)

    def subst_enum_paths(self, t):
        """`Precedence::Dot` (a field-less enum of the crate other than the token type) reads as its discriminant"""
        def rep(mm):
            e, v = mm.group(1), mm.group(2)
            if e in self.enums and v in self.enums[e]:
                return str(self.enums[e][v])
            return mm.group(0)
        return re.sub(r"\b(?:\w+\s*::\s*)*?(\w+)\s*::\s*(\w+)\b(?!\s*(?:\(|::))", rep, t)

    # ---------------- patterns
    def pat_matches(self, pat, K):
        """True / False for one alternative; binders and `_` match everything"""
        p = pat.strip()
        p = re.sub(r"^(&\s*|ref\s+|mut\s+)+", "", p).strip()
        if p.startswith("(") and p.endswith(")"):
            return self.pats_match(p[1:-1], K)
        m = re.match(r"^((?:\w+\s*::\s*)*)(\w+)\s*(\(.*\)|\{.*\})?$", p, re.S)
        if not m:
            raise NotUnderstood("pattern %r" % p[:30])
        name = m.group(2)
        if name == "_":
            return True
        if name in self.variants:
            return name == K
        if name[0].islower() and not m.group(3) and not m.group(1):
            return True       # a binding
        raise NotUnderstood("pattern names %r" % name)

    def pats_match(self, pats, K):
        return any(self.pat_matches(a, K) for a in _split_top(pats, ["|"]))

    # ---------------- scrutinee
    def is_self(self, s):
        m = re.fullmatch(r"\(?\s*[*&]?\s*(\w+)\s*\)?", s.strip())
        return m is not None and (m.group(1) == "self" or m.group(1) in self.binders)

    binders = set()

    # ---------------- match
    def eval_match(self, text, K, kind):
        m = re.match(r"\s*match\s+(.+?)\s*\{", text, re.S)
        if not m or not self.is_self(m.group(1)):
            raise NotUnderstood("match scrutinee")
        i = text.index("{", m.start())
        j = _balanced(text, i, "{", "}")
        if text[j:].strip() not in ("", ";"):
            raise NotUnderstood("text after match")
        body = text[i + 1:j - 1]
        for arm in _split_arms(body):
            if "=>" not in arm:
                raise NotUnderstood("arm %r" % arm[:30])
            lhs, rhs = arm.split("=>", 1)
            guard = None
            mg = re.search(r"\bif\b", lhs)
            if mg:
                lhs, guard = lhs[:mg.start()], lhs[mg.end():]
            if self.pats_match(lhs, K):
                names = set(n for n in re.findall(r"\b[a-z_]\w*\b", re.sub(r"\([^)]*\)|\{[^}]*\}", "", lhs)) if n not in ("ref", "mut", "_"))
                old = self.binders
                self.binders = old | names
                try:
                    if guard is not None and not self.eval_bool(guard, K):
                        continue
                    return self.eval_expr(rhs, K, kind)
                finally:
                    self.binders = old
        raise NotUnderstood("no arm matches %s" % K)

    # ---------------- expressions
    def eval_expr(self, text, K, kind):
        t = text.strip().rstrip(",").strip()
        while t.startswith("{") and _balanced(t, 0, "{", "}") == len(t):
            return self.eval_block(t[1:-1], K, kind)
        if t.startswith("match "):
            return self.eval_match(t, K, kind)
        if t.startswith("if "):
            r = self.eval_if(t, K, kind)
            if r[0] == "fall":
                raise NotUnderstood("if without else in expression position")
            return r[1]
        if t.startswith("return "):
            return self.eval_expr(t[7:].rstrip(";"), K, kind)
        if kind == "bool":
            return self.eval_bool(t, K)
        mc = re.fullmatch(r"(.+?)\s+as\s+(?:%s)" % "|".join(INT_TYPES), t, re.S)
        if mc:
            inner = mc.group(1).strip()
            while inner.startswith("(") and _balanced(inner, 0, "(", ")") == len(inner):
                inner = inner[1:-1].strip()
            return self.eval_expr(inner, K, kind)      # a cast between integer types / of a field-less enum to its discriminant
        t = self.subst_enum_paths(t)
        m = re.fullmatch(r"\(?\s*\*?\s*self\s*\)?\s*\.\s*(\w+)\s*\(\s*\)", t)
        if m:
            return self.call(m.group(1), K, "usize")
        t2 = re.sub(r"\b(?:(?:\w+\s*::\s*)*)(\w+)\s*\.\s*(\w+)\s*\(\s*\)", lambda mm: str(self.call(mm.group(2), mm.group(1), "usize")) if mm.group(1) in self.variants else mm.group(0), t)
        v = self.const_eval(t2, self.env)
        if v is None:
            raise NotUnderstood("expression %r" % t[:40])
        return v

    def eval_bool(self, text, K):
        t = text.strip()
        while t.startswith("(") and _balanced(t, 0, "(", ")") == len(t):
            t = t[1:-1].strip()
        parts = _split_top(t, ["||"])
        if len(parts) > 1:
            return any(self.eval_bool(p, K) for p in parts)
        parts = _split_top(t, ["&&"])
        if len(parts) > 1:
            return all(self.eval_bool(p, K) for p in parts)
        if t.startswith("!") and not t.startswith("!="):
            return not self.eval_bool(t[1:], K)
        if t in ("true", "false"):
            return t == "true"
        m = re.match(r"^let\s+(.+?)\s*=\s*(.+)$", t, re.S)
        if m and self.is_self(m.group(2)):
            return self.pats_match(m.group(1), K)
        m = re.match(r"^matches!\s*\(\s*(.+?)\s*,(.+)\)$", t, re.S)
        if m and self.is_self(m.group(1)):
            return self.pats_match(m.group(2), K)
        if t.startswith("match "):
            return self.eval_match(t, K, "bool")
        if t.startswith("{") or t.startswith("if "):
            return self.eval_expr(t, K, "bool")
        m = re.fullmatch(r"\(?\s*[*&]?\s*(\w+)\s*\)?\s*\.\s*(\w+)\s*\(\s*\)", t)
        if m and (m.group(1) == "self" or m.group(1) in self.binders):
            return self.call(m.group(2), K, "bool")
        m = re.fullmatch(r"(.+?)\s*(==|!=|<=|>=|<|>)\s*(.+)", t, re.S)
        if m:
            a, b = self.eval_expr(m.group(1), K, "usize"), self.eval_expr(m.group(3), K, "usize")
            return {"==": a == b, "!=": a != b, "<": a < b, "<=": a <= b, ">": a > b, ">=": a >= b}[m.group(2)]
        raise NotUnderstood("condition %r" % t[:40])

    def eval_if(self, text, K, kind):
        """-> ('val', v) or ('fall',) ; text starts with 'if '"""
        t = text.strip()
        # the condition runs up to the '{' that opens the then-block: the first top-level '{' not belonging to a `match` in the condition
        i = 3
        depth = 0
        while i < len(t):
            ch = t[i]
            if ch in "([":
                depth += 1
            elif ch in ")]":
                depth -= 1
            elif ch == "{" and depth == 0:
                head = t[3:i]
                if re.search(r"\bmatch\b[^{}]*$", head) and not re.search(r"\bmatch\b.*\{.*\}[^{}]*$", head, re.S):
                    i = _balanced(t, i, "{", "}")
                    continue
                break
            i += 1
        cond = t[3:i]
        j = _balanced(t, i, "{", "}")
        then = t[i + 1:j - 1]
        rest = t[j:].strip()
        c = self.eval_bool(cond, K)
        if c:
            r = self.eval_block(then, K, kind, allow_fall=True)
            return r
        if rest.startswith("else"):
            e = rest[4:].strip()
            if e.startswith("if "):
                return self.eval_if(e, K, kind)
            k = _balanced(e, 0, "{", "}")
            if e[k:].strip() not in ("", ";"):
                raise NotUnderstood("text after else block")
            return self.eval_block(e[1:k - 1], K, kind, allow_fall=True)
        return ("fall",)

    def eval_block(self, text, K, kind, allow_fall=False):
        t = text.strip()
        local = dict(self.env)
        saved = self.env
        self.env = local
        try:
            while True:
                t = t.strip()
                if not t:
                    if allow_fall:
                        return ("fall",)
                    raise NotUnderstood("empty block")
                m = re.match(r"^(?:#\[[^\]]*\]\s*)*(?:const|let)\s+(?:mut\s+)?(\w+)\s*(?::\s*[\w:]+\s*)?=\s*([^;]+);", t)
                if m:
                    local[m.group(1)] = m.group(2)
                    t = t[m.end():]
                    continue
                m = re.match(r"^use\s+[^;]+;", t)
                if m:
                    t = t[m.end():]
                    continue
                m = re.match(r"^return\s+([^;]+);?", t)
                if m:
                    v = self.eval_expr(m.group(1), K, kind)
                    return ("val", v) if allow_fall else v
                if t.startswith("if "):
                    # find the extent of the if / else chain
                    end = self._if_extent(t)
                    r = self.eval_if(t[:end], K, kind)
                    if r[0] == "val":
                        return r if allow_fall else r[1]
                    t = t[end:].lstrip(";")
                    continue
                v = self.eval_expr(t, K, kind)
                return ("val", v) if allow_fall else v
        finally:
            self.env = saved

    def _if_extent(self, t):
        i = t.index("{")
        # skip a `match {..}` inside the condition
        head = t[:i]
        while re.search(r"\bmatch\b[^{}]*$", head):
            i = _balanced(t, i, "{", "}")
            i = t.index("{", i)
            head = t[:i]
        j = _balanced(t, i, "{", "}")
        while True:
            rest = t[j:]
            m = re.match(r"\s*else\s*", rest)
            if not m:
                return j
            k = j + m.end()
            if t.startswith("if ", k):
                return k + self._if_extent(t[k:])
            return _balanced(t, k, "{", "}")

    def call(self, name, K, kind):
        self.depth += 1
        if self.depth > 12:
            raise NotUnderstood("recursion")
        try:
            m = re.search(r"fn\s+%s\s*\(\s*&\s*self\s*\)\s*->\s*(\w+)\s*\{" % re.escape(name), self.whole)
            ret = m.group(1) if m else None
            if not m or not (ret == kind or (kind == "usize" and (ret in INT_TYPES or ret in self.enums))):
                raise NotUnderstood("fn %s -> %s not found" % (name, kind))
            i = self.whole.index("{", m.end() - 1)
            j = _balanced(self.whole, i, "{", "}")
            body = re.sub(r"#\[[^\]]*\]", "", self.whole[i + 1:j - 1])
            return self.eval_block(body, K, kind)
        finally:
            self.depth -= 1


def _split_arms(body):
    """arms of a match body: separated by top-level commas, or ending with a block"""
    arms, depth, cur, i = [], 0, "", 0
    while i < len(body):
        ch = body[i]
        if ch in "([{":
            depth += 1
        elif ch in ")]}":
            depth -= 1
            if depth == 0 and ch == "}" and "=>" in cur:
                cur += ch
                # a block arm may omit the comma
                k = i + 1
                while k < len(body) and body[k].isspace():
                    k += 1
                if k >= len(body) or body[k] != ",":
                    arms.append(cur)
                    cur = ""
                i += 1
                continue
        if ch == "," and depth == 0:
            arms.append(cur)
            cur = ""
        else:
            cur += ch
        i += 1
    if cur.strip():
        arms.append(cur)
    return [a for a in arms if a.strip()]


def table(whole, fname, variants, const_eval, env):
    """{variant: value} or raises NotUnderstood"""
    ev = Ev(whole, const_eval, env, set(variants))
    return {K: ev.call(fname, K, "usize") for K in variants}


def pair_table(whole, body, variants, const_eval, env):
    """`CONST.iter().find(..)...` over a constant array of (Variant, value) pairs, with the default of `map_or` / `unwrap_or`"""
    m = re.search(r"\b([A-Z][A-Z0-9_]{2,})\s*\.\s*iter\s*\(\s*\)", body)
    if not m:
        raise NotUnderstood("no constant table")
    d = re.search(r"\b(?:const|static)\s+%s\s*:[^=]{0,200}?=\s*&?\s*\[" % re.escape(m.group(1)), whole, re.S)
    if not d:
        raise NotUnderstood("table %s not found" % m.group(1))
    i = whole.index("[", d.end() - 1)
    j = _balanced(whole, i, "[", "]")
    md = re.search(r"(?:map_or|unwrap_or)\s*\(\s*([^,()]+)", body)
    default = const_eval(md.group(1), env) if md else None
    if default is None:
        raise NotUnderstood("default of the table lookup")
    tab = {}
    for item in _split_top(whole[i + 1:j - 1], [","]):
        it = item.strip()
        if not it:
            continue
        mm = re.fullmatch(r"\(\s*((?:\w+\s*::\s*)*\w+)\s*,\s*(.+?)\s*\)", it, re.S)
        if not mm:
            raise NotUnderstood("table entry %r" % it[:30])
        name = mm.group(1).split("::")[-1].strip()
        v = const_eval(mm.group(2), env)
        if name not in variants or v is None:
            raise NotUnderstood("table entry %r" % it[:30])
        tab.setdefault(name, v)
    return {K: tab.get(K, default) for K in variants}
