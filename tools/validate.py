#!/usr/bin/env python3
"""Validates MANIFEST.json and evidence/*.json against the given schemas (run with python3-vt: needs jsonschema)."""
import glob
import json
import jsonschema
import os
ROOT = os.path.dirname(os.path.dirname(os.path.abspath(__file__)))
m = json.load(open(os.path.join(ROOT, "MANIFEST.json")))
jsonschema.validate(m, json.load(open("/root/.vp/MANIFEST.schema.json")))
print("manifest valid:", len(m["checks"]), "checks,", len(m.get("not_applicable", [])), "not applicable")
sch = json.load(open("/root/.vp/EVIDENCE.schema.json"))
for c in m["checks"]:
    f = c["evidence_file"]
    try:
        e = json.load(open(f))
        jsonschema.validate(e, sch)
        cv = e["coverage"]
        print(os.path.basename(f), "valid", e["tier"], "obligations", cv.get("obligations"), "discharged", cv.get("discharged"),
              "evaluations", cv.get("evaluations"), "nontrivial", cv.get("distinct_nontrivial"), "violations", e.get("violations"))
    except Exception as ex:
        print(os.path.basename(f), "INVALID", str(ex)[:200])
