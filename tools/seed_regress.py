#!/usr/bin/env python3
"""Re-runs every stored seeded change against the current /repo and the current checks (own property's quick check)."""
import glob
import json
import os
import subprocess
import sys

ROOT = os.path.dirname(os.path.dirname(os.path.abspath(__file__)))


def sh(cmd, cwd=None):
    p = subprocess.run(cmd, shell=True, cwd=cwd, stdout=subprocess.PIPE, stderr=subprocess.STDOUT, text=True)
    return p.returncode, p.stdout


def main():
    only = sys.argv[1:]
    out = {}
    for d in sorted(glob.glob(os.path.join(ROOT, "seeded", "*"))):
        sid = os.path.basename(d)
        if only and not any(sid.startswith(o) for o in only):
            continue
        pid = sid.split("-")[0]
        rc, o = sh("git -C /repo status --short")
        assert o.strip() == "", o
        rc, o = sh("git -C /repo apply %s/patch.diff" % d)
        if rc != 0:
            rc, o = sh("git -C /repo apply --3way %s/patch.diff" % d)
            sh("git -C /repo reset -q")
        if rc != 0:
            sh("git -C /repo checkout -- .")
            out[sid] = "patch does not apply to the current tree"
            print(sid, out[sid], flush=True)
            continue
        try:
            rc, o = sh("./check %s --tier quick" % pid, cwd=ROOT)
            lines = [l for l in o.splitlines() if l.startswith(("VIOLATION", "OK "))]
            out[sid] = "caught" if rc == 1 and any(l.startswith("VIOLATION") for l in lines) else "MISSED (%s)" % (lines[-1] if lines else rc)
        finally:
            sh("git -C /repo checkout -- .")
        print(sid, out[sid], flush=True)
    json.dump(out, open(os.path.join(ROOT, ".cache", "seed_regress.json"), "w"), indent=1)


if __name__ == "__main__":
    main()
