#!/usr/bin/env python3
"""harmless_eval.py [area ...]
Applies each behaviour-preserving change under /tmp/wh_<area>/_harmless/hN (or the stored copies under /verif/harmless/) to /repo,
runs the checks anchored in the touched files (quick tier), reverts /repo, and records the outcome under /verif/harmless/<area>-hN/.
A check that alarms on one of these is a false alarm of the machinery (the property still holds)."""
import glob
import json
import os
import shutil
import subprocess
import sys

ROOT = os.path.dirname(os.path.dirname(os.path.abspath(__file__)))
CHECKS = {
    "lexer": ["C03", "C04", "C09", "C12", "C05"],
    "parser": ["C03", "C04", "C12", "C05"],
    "functions": ["C06", "C07", "C02", "C10", "C05"],
    "interp": ["C01", "C11", "C15", "C13", "C06", "C16"],
    "variable": ["C01", "C02", "C08", "C14", "C17", "C10"],
    "misc": ["C12", "C18", "C13", "C03"],
}


def sh(cmd, cwd=None):
    p = subprocess.run(cmd, shell=True, cwd=cwd, stdout=subprocess.PIPE, stderr=subprocess.STDOUT, text=True)
    return p.returncode, p.stdout


def main():
    only = sys.argv[1:]
    srcs = []
    for d in sorted(glob.glob("/tmp/wh_*/_harmless/h[0-9]")):
        area = d.split("/")[2][3:]
        srcs.append((area, os.path.basename(d), d))
    if not srcs:
        for d in sorted(glob.glob(os.path.join(ROOT, "harmless", "*-h[0-9]"))):
            area, hn = os.path.basename(d).rsplit("-", 1)
            srcs.append((area, hn, d))
    summary = {}
    for area, hn, d in srcs:
        if only and area not in only and "%s-%s" % (area, hn) not in only:
            continue
        sid = "%s-%s" % (area, hn)
        dst = os.path.join(ROOT, "harmless", sid)
        os.makedirs(dst, exist_ok=True)
        if os.path.abspath(d) != os.path.abspath(dst):
            shutil.copy(os.path.join(d, "patch.diff"), os.path.join(dst, "patch.diff"))
            shutil.copy(os.path.join(d, "meta.json"), os.path.join(dst, "meta.json"))
        meta = json.load(open(os.path.join(dst, "meta.json")))
        rc, o = sh("git -C /repo status --short")
        assert o.strip() == "", o
        rc, o = sh("git -C /repo apply %s/patch.diff" % dst)
        if rc != 0:
            summary[sid] = "patch does not apply"
            print(sid, summary[sid], o, flush=True)
            continue
        res = {}
        try:
            for c in CHECKS[area.rstrip('0123456789')]:
                rc, o = sh("./check %s --tier quick" % c, cwd=ROOT)
                lines = [l for l in o.splitlines() if l.startswith(("VIOLATION", "OK "))]
                detail = None
                for l in lines:
                    if l.startswith("VIOLATION") and "replay=" in l:
                        try:
                            r = json.load(open(l.split("replay=")[1].split()[0]))
                            detail = {k: r.get(k) for k in ("case", "expected_by_spec", "observed", "detail", "broken_obligation", "notes", "log")}
                        except Exception:
                            pass
                        break
                res[c] = {"exit": rc, "lines": lines[:4], "first_replay": detail}
                print(sid, c, "quiet" if rc == 0 else "ALARM %s" % (lines[:1]), flush=True)
        finally:
            sh("git -C /repo checkout -- .")
        meta["checks_against_repo_with_change"] = res
        meta["false_alarms"] = [c for c, r in res.items() if r["exit"] != 0]
        json.dump(meta, open(os.path.join(dst, "meta.json"), "w"), indent=1)
        summary[sid] = meta["false_alarms"]
    json.dump(summary, open(os.path.join(ROOT, ".cache", "harmless_eval.json"), "w"), indent=1)
    print(summary)


if __name__ == "__main__":
    main()
