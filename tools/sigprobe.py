"""Signatures of registered functions learned from the implementation itself: the arity and type errors a function reports
name the declared arity and the declared parameter type, so a handful of probe calls per function recover its signature
without reading how the source constructs it."""
import re

import wire

ATOMS = {"any": "TyAny", "null": "TyNull", "string": "TyString", "number": "TyNumber", "boolean": "TyBool", "object": "TyObject",
         "array": "TyArray", "expref": "TyExpref"}
SAMPLE = {"any": "u1", "null": "n", "string": '"115', "number": "u1", "boolean": "t", "object": "{ }", "array": "[ ]", "expref": "& Identity"}
CANDIDATES = ["n", "& Identity", "u1", '"115', "[ ]", "{ }", "t", "[ u1 ]", '[ "115 ]', "[ n ]"]


class ProbeFailed(Exception):
    pass


def parse_type(txt):
    """Display text of an ArgumentType -> (coq text, sample value)"""
    parts = []
    depth, cur = 0, ""
    for ch in txt:
        if ch == "[":
            depth += 1
        elif ch == "]":
            depth -= 1
        if ch == "|" and depth == 0:
            parts.append(cur)
            cur = ""
        else:
            cur += ch
    parts.append(cur)
    if len(parts) > 1:
        sub = [parse_type(p) for p in parts]
        return "(TyUnion [" + "; ".join(c for c, _ in sub) + "])", sub[0][1]
    t = txt.strip()
    m = re.fullmatch(r"array\[(.*)\]", t)
    if m:
        c, s = parse_type(m.group(1))
        return "(TyTypedArray %s)" % c, "[ ]"
    if t in ATOMS:
        return ATOMS[t], SAMPLE[t]
    raise ProbeFailed("type text %r" % txt)


def probe(run, name, max_arity=6):
    """run(list of case lines) -> observations; returns 'mkSig [..] var'"""
    nm = wire.s(name)

    def call(args):
        return run(["fn 0 %s %s" % (nm, " ".join(args))])[0]

    def err(obs):
        t = obs.split(" ")
        if t[0] == "ERR" and len(t) > 2 and t[1] == "runtime":
            return t[2], t[6:]
        return None, t

    o = call([])
    if o == "ERR nofunction":
        raise ProbeFailed("%s is not registered" % name)
    k, pay = err(o)
    n = int(pay[0]) if k == "not-enough" else 0
    if n > max_arity:
        raise ProbeFailed("arity %d" % n)
    valid, types = [], []

    def position_type(pos, total):
        """declared type text at position pos (None = accepts every candidate), given valid values before it"""
        for cand in CANDIDATES:
            args = valid[:pos] + [cand] + ["n"] * (total - pos - 1)
            kk, pp = err(call(args))
            if kk == "invalid-type" and int(pp[2]) == pos:
                return wire.uns(pp[0])
            if kk in ("not-enough", "too-many"):
                raise ProbeFailed("arity error %s while probing position %d of %s" % (kk, pos, name))
        return "any"

    for pos in range(n):
        c, s = parse_type(position_type(pos, n))
        types.append(c)
        valid.append(s)
    # variadic tail?
    kk, pp = err(call(valid + ["n"]))
    if kk == "too-many":
        var = "None"
    else:
        c, s = parse_type(position_type(n, n + 1))
        var = "(Some %s)" % c
        # a second extra argument must be checked against the same type
        valid2 = valid + [s]
        c2 = None
        for cand in CANDIDATES:
            kk2, pp2 = err(call(valid2 + [cand]))
            if kk2 == "invalid-type" and int(pp2[2]) == n + 1:
                c2 = parse_type(wire.uns(pp2[0]))[0]
                break
            if kk2 in ("not-enough", "too-many"):
                raise ProbeFailed("variadic tail of %s is not uniform" % name)
        if c2 is None:
            c2 = "TyAny"
        if c2 != c:
            raise ProbeFailed("variadic tail of %s is not uniform (%s then %s)" % (name, c, c2))
    return "mkSig [" + "; ".join(types) + "] " + var
