"""Shared generators: compliance-suite loader, random documents, random trees."""
import glob
import json
import os

import wire

COMPLIANCE = "/repo/jmespath/tests/compliance"


def compliance_cases():
    """-> list of (file, given, expression, case-dict)"""
    out = []
    for p in sorted(glob.glob(os.path.join(COMPLIANCE, "*.json"))):
        try:
            suites = json.load(open(p))
        except Exception:
            continue
        for suite in suites:
            given = suite.get("given")
            for c in suite.get("cases", []):
                if "expression" in c:
                    out.append((os.path.basename(p), given, c["expression"], c))
    return out


def doc_ok(v):
    """documents the wire format can carry (ints within u64/i64)"""
    if isinstance(v, bool) or v is None or isinstance(v, (str, float)):
        return True
    if isinstance(v, int):
        return -2**63 <= v < 2**64
    if isinstance(v, list):
        return all(doc_ok(x) for x in v)
    if isinstance(v, dict):
        return all(doc_ok(x) for x in v.values())
    return False


def rand_string(rng, maxlen=4):
    alphabet = ["a", "b", "c", "foo", "bar", "A", "_", "0", " ", "é", "中", "\U0001f600", '"', "\\", "'", "`", "\n", "-"]
    n = rng.randint(0, maxlen)
    return "".join(rng.choice(alphabet) for _ in range(n))


KEYS = ["a", "b", "c", "foo", "bar", "baz", "é", "A", "a b", ""]


def rand_number(rng):
    r = rng.random()
    if r < 0.45:
        return rng.randint(-5, 12)
    if r < 0.6:
        return rng.choice([0.5, 1.5, -2.25, 1.0, 0.0, 3.0, 1e10, 0.1, 2.0, -0.0, 1e-7])
    if r < 0.7:
        return rng.choice([2**53, 2**53 + 1, 2**63, 2**64 - 1, -2**63, 2**31, -2**31 - 1])
    if r < 0.85:
        return rng.randint(-1000, 1000) / rng.choice([1, 2, 4, 8, 10, 3])
    return rng.uniform(-1e6, 1e6)


def rand_doc(rng, depth=3, homogeneous=None):
    r = rng.random()
    if depth <= 0 or r < 0.35:
        k = rng.random()
        if k < 0.15:
            return None
        if k < 0.3:
            return rng.random() < 0.5
        if k < 0.65:
            return rand_number(rng)
        return rand_string(rng)
    if r < 0.68:
        n = rng.choice([0, 1, 2, 3, 3, 4, 6])
        if rng.random() < 0.3:
            kind = rng.choice(["num", "str", "obj"])
            if kind == "num":
                return [rand_number(rng) for _ in range(n)]
            if kind == "str":
                return [rand_string(rng) for _ in range(n)]
            return [{k: rand_doc(rng, depth - 2) for k in rng.sample(KEYS, rng.randint(0, 3))} for _ in range(n)]
        return [rand_doc(rng, depth - 1) for _ in range(n)]
    n = rng.choice([0, 1, 2, 3, 4])
    return {k: rand_doc(rng, depth - 1) for k in rng.sample(KEYS, n)}


# ---------------------------------------------------------------- random core trees (wire syntax)

def rand_literal(rng):
    return rand_doc(rng, 1)


def rand_ast(rng, depth=4, allow_fn=False):
    """-> wire string of a random AST over the core node kinds"""
    def field():
        return "Field " + wire.s(rng.choice(KEYS))
    if depth <= 0:
        return rng.choice([field, field, lambda: "Identity", lambda: "Index %d" % rng.randint(-3, 3),
                           lambda: "Literal " + wire.val(rand_literal(rng))])()
    sub = lambda: rand_ast(rng, depth - 1, allow_fn)
    r = rng.random()
    if r < 0.14:
        return field()
    if r < 0.17:
        return "Identity"
    if r < 0.22:
        return "Index %d" % rng.randint(-4, 4)
    if r < 0.27:
        return "Literal " + wire.val(rand_literal(rng))
    if r < 0.40:
        return "Subexpr %s %s" % (sub(), sub())
    if r < 0.46:
        return "Or %s %s" % (sub(), sub())
    if r < 0.52:
        return "And %s %s" % (sub(), sub())
    if r < 0.56:
        return "Not %s" % sub()
    if r < 0.63:
        return "Cmp %s %s %s" % (rng.choice(["eq", "ne", "lt", "le", "gt", "ge"]), sub(), sub())
    if r < 0.72:
        kind = rng.random()
        if kind < 0.35:
            lhs = sub()
        elif kind < 0.55:
            lhs = "Flatten " + sub()
        elif kind < 0.7:
            lhs = "Values " + sub()
        else:
            def ob():
                return rng.choice(["_", "_", str(rng.randint(-4, 4))])
            step = rng.choice([1, 1, -1, 2, -2, 0, 3])
            lhs = "Slice %d %s %s %d" % (rng.randint(0, 9), ob(), ob(), step)
        return "Proj %s %s" % (lhs, sub())
    if r < 0.78:
        return "Proj %s Cond %s %s" % (sub(), sub(), sub())
    if r < 0.82:
        return "Flatten " + sub()
    if r < 0.85:
        return "Values " + sub()
    if r < 0.91:
        n = rng.randint(0, 3)
        return "MList [ %s ]" % " ".join(sub() for _ in range(n)) if n else "MList [ ]"
    if r < 0.96:
        n = rng.randint(0, 3)
        inner = " ".join("%s %s" % (wire.s(rng.choice(KEYS)), sub()) for _ in range(n))
        return "MHash { %s }" % inner if n else "MHash { }"
    return "Cond %s %s" % (sub(), sub())
