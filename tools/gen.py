"""Shared generators: compliance-suite loader, random documents, random trees."""
import glob
import json
import os

import wire

COMPLIANCE = "/repo/jmespath/tests/compliance"


def compliance_cases():
    """-> list of (file, given, expression, case-dict)"""
    out = []
    for p in sorted(glob.glob(os.path.join(COMPLIANCE, "*.json"))):
        try:
            suites = json.load(open(p))
        except Exception:
            continue
        for suite in suites:
            given = suite.get("given")
            for c in suite.get("cases", []):
                if "expression" in c:
                    out.append((os.path.basename(p), given, c["expression"], c))
    return out


def doc_ok(v):
    """documents the wire format can carry (ints within u64/i64)"""
    if isinstance(v, bool) or v is None or isinstance(v, (str, float)):
        return True
    if isinstance(v, int):
        return -2**63 <= v < 2**64
    if isinstance(v, list):
        return all(doc_ok(x) for x in v)
    if isinstance(v, dict):
        return all(doc_ok(x) for x in v.values())
    return False


def rand_string(rng, maxlen=4):
    alphabet = ["a", "b", "c", "foo", "bar", "A", "_", "0", " ", "é", "中", "\U0001f600", '"', "\\", "'", "`", "\n", "-"]
    n = rng.randint(0, maxlen)
    return "".join(rng.choice(alphabet) for _ in range(n))


KEYS = ["a", "b", "c", "foo", "bar", "baz", "é", "A", "a b", ""]


def rand_number(rng):
    r = rng.random()
    if r < 0.45:
        return rng.randint(-5, 12)
    if r < 0.6:
        return rng.choice([0.5, 1.5, -2.25, 1.0, 0.0, 3.0, 1e10, 0.1, 2.0, -0.0, 1e-7])
    if r < 0.7:
        return rng.choice([2**53, 2**53 + 1, 2**63, 2**64 - 1, -2**63, 2**31, -2**31 - 1])
    if r < 0.85:
        return rng.randint(-1000, 1000) / rng.choice([1, 2, 4, 8, 10, 3])
    return rng.uniform(-1e6, 1e6)


def rand_doc(rng, depth=3, homogeneous=None):
    r = rng.random()
    if depth <= 0 or r < 0.35:
        k = rng.random()
        if k < 0.15:
            return None
        if k < 0.3:
            return rng.random() < 0.5
        if k < 0.65:
            return rand_number(rng)
        return rand_string(rng)
    if r < 0.68:
        n = rng.choice([0, 1, 2, 3, 3, 4, 6])
        if rng.random() < 0.3:
            kind = rng.choice(["num", "str", "obj"])
            if kind == "num":
                return [rand_number(rng) for _ in range(n)]
            if kind == "str":
                return [rand_string(rng) for _ in range(n)]
            return [{k: rand_doc(rng, depth - 2) for k in rng.sample(KEYS, rng.randint(0, 3))} for _ in range(n)]
        return [rand_doc(rng, depth - 1) for _ in range(n)]
    n = rng.choice([0, 1, 2, 3, 4])
    return {k: rand_doc(rng, depth - 1) for k in rng.sample(KEYS, n)}


# ---------------------------------------------------------------- random core trees (wire syntax)

def rand_literal(rng):
    return rand_doc(rng, 1)


def rand_ast(rng, depth=4, allow_fn=False):
    """-> wire string of a random AST over the core node kinds"""
    def field():
        return "Field " + wire.s(rng.choice(KEYS))
    if depth <= 0:
        return rng.choice([field, field, lambda: "Identity", lambda: "Index %d" % rng.randint(-3, 3),
                           lambda: "Literal " + wire.val(rand_literal(rng))])()
    sub = lambda: rand_ast(rng, depth - 1, allow_fn)
    r = rng.random()
    if r < 0.14:
        return field()
    if r < 0.17:
        return "Identity"
    if r < 0.22:
        return "Index %d" % rng.randint(-4, 4)
    if r < 0.27:
        return "Literal " + wire.val(rand_literal(rng))
    if r < 0.40:
        return "Subexpr %s %s" % (sub(), sub())
    if r < 0.46:
        return "Or %s %s" % (sub(), sub())
    if r < 0.52:
        return "And %s %s" % (sub(), sub())
    if r < 0.56:
        return "Not %s" % sub()
    if r < 0.63:
        return "Cmp %s %s %s" % (rng.choice(["eq", "ne", "lt", "le", "gt", "ge"]), sub(), sub())
    if r < 0.72:
        kind = rng.random()
        if kind < 0.35:
            lhs = sub()
        elif kind < 0.55:
            lhs = "Flatten " + sub()
        elif kind < 0.7:
            lhs = "Values " + sub()
        else:
            def ob():
                return rng.choice(["_", "_", str(rng.randint(-4, 4))])
            step = rng.choice([1, 1, -1, 2, -2, 0, 3])
            lhs = "Slice %d %s %s %d" % (rng.randint(0, 9), ob(), ob(), step)
        return "Proj %s %s" % (lhs, sub())
    if r < 0.78:
        return "Proj %s Cond %s %s" % (sub(), sub(), sub())
    if r < 0.82:
        return "Flatten " + sub()
    if r < 0.85:
        return "Values " + sub()
    if r < 0.91:
        n = rng.randint(0, 3)
        return "MList [ %s ]" % " ".join(sub() for _ in range(n)) if n else "MList [ ]"
    if r < 0.96:
        n = rng.randint(0, 3)
        inner = " ".join("%s %s" % (wire.s(rng.choice(KEYS)), sub()) for _ in range(n))
        return "MHash { %s }" % inner if n else "MHash { }"
    return "Cond %s %s" % (sub(), sub())


# ---------------------------------------------------------------- expression strings (token lists)
IDENTS = ["a", "b", "c", "foo", "bar", "baz", "_x", "A1", "é"]
FUNCS = [("length", 1), ("abs", 1), ("sort", 1), ("keys", 1), ("values", 1), ("type", 1), ("to_string", 1), ("to_number", 1),
         ("to_array", 1), ("reverse", 1), ("not_null", 2), ("contains", 2), ("starts_with", 2), ("ends_with", 2), ("join", 2),
         ("merge", 2), ("max", 1), ("min", 1), ("sum", 1), ("avg", 1), ("ceil", 1), ("floor", 1), ("unknown_fn", 1)]
BYFUNCS = ["sort_by", "max_by", "min_by"]


def json_text(v):
    return json.dumps(v, ensure_ascii=False)


def tok_ident(rng):
    k = rng.choice(IDENTS)
    if not (k.isascii() and (k[0].isalpha() or k[0] == "_")) or rng.random() < 0.15:
        return json.dumps(k, ensure_ascii=rng.random() < 0.5)
    return k


def tok_literal(rng):
    r = rng.random()
    if r < 0.35:
        s = rand_string(rng, 3).replace("\\", "").replace("'", "\\'")
        return "'" + s + "'"
    v = rand_doc(rng, 1)
    return "`" + json_text(v).replace("`", "\\`") + "`"


def tok_number(rng):
    r = rng.random()
    if r < 0.8:
        return str(rng.randint(-3, 5))
    return str(rng.choice([2147483647, -2147483647, 2147483648, -2147483648, 10, 100, 0, 7]))


def gen_expr(rng, depth):
    """-> list of token strings forming (usually) a sentence"""
    e = lambda: gen_expr(rng, depth - 1)
    if depth <= 0:
        r = rng.random()
        if r < 0.6:
            return [tok_ident(rng)]
        if r < 0.7:
            return ["@"]
        if r < 0.85:
            return [tok_literal(rng)]
        return ["*"] if rng.random() < 0.5 else ["[", "*", "]"]
    r = rng.random()
    if r < 0.10:
        return [tok_ident(rng)]
    if r < 0.13:
        return ["@"]
    if r < 0.17:
        return [tok_literal(rng)]
    if r < 0.21:
        return ["!"] + e()
    if r < 0.26:
        return ["("] + e() + [")"]
    if r < 0.40:
        # dot
        k = rng.random()
        if k < 0.6:
            rhs = [tok_ident(rng)]
        elif k < 0.7:
            rhs = ["*"]
        elif k < 0.8:
            rhs = gen_multilist(rng, depth - 1)
        elif k < 0.9:
            rhs = gen_multihash(rng, depth - 1)
        else:
            rhs = gen_call(rng, depth - 1)
        return e() + ["."] + rhs
    if r < 0.47:
        return e() + ["[", tok_number(rng), "]"]
    if r < 0.53:
        return (e() if rng.random() < 0.8 else []) + gen_slice(rng)
    if r < 0.58:
        return (e() if rng.random() < 0.8 else []) + ["[", "*", "]"]
    if r < 0.63:
        return (e() if rng.random() < 0.8 else []) + ["[]"]
    if r < 0.69:
        return (e() if rng.random() < 0.8 else []) + ["[?"] + e() + ["]"]
    if r < 0.74:
        return e() + ["||"] + e()
    if r < 0.79:
        return e() + ["&&"] + e()
    if r < 0.85:
        return e() + [rng.choice(["==", "!=", "<", "<=", ">", ">="])] + e()
    if r < 0.90:
        return e() + ["|"] + e()
    if r < 0.93:
        return gen_multilist(rng, depth - 1)
    if r < 0.96:
        return gen_multihash(rng, depth - 1)
    return gen_call(rng, depth - 1)


def gen_slice(rng):
    def part():
        return [tok_number(rng)] if rng.random() < 0.5 else []
    t = ["["] + part() + [":"] + part()
    if rng.random() < 0.5:
        t += [":"] + part()
    return t + ["]"]


def gen_multilist(rng, depth):
    n = rng.randint(1, 3)
    t = ["["]
    for i in range(n):
        if i:
            t.append(",")
        t += gen_expr(rng, depth)
    return t + ["]"]


def gen_multihash(rng, depth):
    n = rng.randint(1, 3)
    t = ["{"]
    for i in range(n):
        if i:
            t.append(",")
        t += [tok_ident(rng), ":"] + gen_expr(rng, depth)
    return t + ["}"]


def gen_call(rng, depth):
    if rng.random() < 0.25:
        name = rng.choice(BYFUNCS)
        return [name, "("] + gen_expr(rng, depth) + [",", "&"] + gen_expr(rng, depth) + [")"]
    if rng.random() < 0.1:
        return ["map", "(", "&"] + gen_expr(rng, depth) + [","] + gen_expr(rng, depth) + [")"]
    name, ar = rng.choice(FUNCS)
    if rng.random() < 0.1:
        ar = rng.choice([0, 1, 2, 3])
    t = [name, "("]
    for i in range(ar):
        if i:
            t.append(",")
        t += gen_expr(rng, depth)
    return t + [")"]


SOUP = ["a", "b", ".", "*", "[", "]", "[]", "[?", "(", ")", "{", "}", ",", ":", "|", "||", "&", "&&", "!", "==", "!=", "<", "<=", ">", ">=",
        "@", "0", "1", "-1", "'x'", "`1`", '"q"', "=", "-", "`", "'", '"', "\\", "#", "é", "\n", "2147483648", "-0", "f(", "&a"]


def mutate(rng, toks):
    toks = list(toks)
    k = rng.random()
    if not toks:
        return [rng.choice(SOUP)]
    i = rng.randrange(len(toks))
    if k < 0.3:
        del toks[i]
    elif k < 0.55:
        toks.insert(i, rng.choice(SOUP))
    elif k < 0.7:
        toks.insert(i, toks[i])
    elif k < 0.85:
        j = rng.randrange(len(toks))
        toks[i], toks[j] = toks[j], toks[i]
    else:
        toks[i] = rng.choice(SOUP)
    return toks


def render(rng, toks, spacing=None):
    """joins tokens; adjacent word-like tokens get a space; otherwise random whitespace"""
    out = []
    prev = ""
    for t in toks:
        need = bool(prev) and (prev[-1].isalnum() or prev[-1] in "_\"") and (t[0].isalnum() or t[0] in "_\"-")
        r = rng.random() if spacing is None else spacing
        if need or r < 0.25:
            out.append(rng.choice([" ", " ", "  ", "\n", "\t"]) if need or r < 0.2 else "")
        out.append(t)
        prev = t
    return "".join(out)
