"""Translator: re-extracts the declarative tables of /repo's current working tree
into coq/theories/Gen/Tables.v on every run.

Front end: the crate as rustc sees it — `cargo +nightly rustc -- -Zunpretty=expanded`
(comments gone, macros expanded, canonical layout), so that re-layouts, comments,
macro re-arrangements and helper macros in the source do not disturb the reading.
When the expansion is unavailable the raw source (comments stripped) is read with
the same recognisers.  A table that cannot be *understood* is reported as a broken
translator obligation; it is never guessed (the caller turns it into a violation
with `no-failing-input-found` unless a failing input is found)."""
import hashlib
import os
import re
import subprocess

import vlib

TOKENS = ["Identifier", "QuotedIdentifier", "Number", "Literal", "Dot", "Star", "Flatten", "And", "Or", "Pipe",
          "Filter", "Lbracket", "Rbracket", "Comma", "Colon", "Not", "Ne", "Eq", "Gt", "Gte", "Lt", "Lte", "At",
          "Ampersand", "Lparen", "Rparen", "Lbrace", "Rbrace", "Eof"]

ARG_ATOMS = {"Any": "TyAny", "Null": "TyNull", "String": "TyString", "Bool": "TyBool", "Number": "TyNumber",
             "Object": "TyObject", "Expref": "TyExpref", "Array": "TyArray"}


def coq_str(s):
    return "[" + ";".join(str(ord(c)) for c in s) + "]"


def src_dir():
    return os.path.join(vlib.REPO, "jmespath", "src")


def strip_comments(txt):
    """remove // and /* */ comments, keeping string and char literals intact"""
    out = []
    i, n = 0, len(txt)
    while i < n:
        c = txt[i]
        if c == '"':
            j = i + 1
            while j < n and txt[j] != '"':
                j += 2 if txt[j] == "\\" else 1
            out.append(txt[i:j + 1])
            i = j + 1
        elif c == "'" and re.match(r"'(\\.[^']*|[^'\\])'", txt[i:i + 12]):
            m = re.match(r"'(\\.[^']*|[^'\\])'", txt[i:i + 12])
            out.append(m.group(0))
            i += m.end()
        elif txt.startswith("//", i):
            j = txt.find("\n", i)
            i = n if j < 0 else j
        elif txt.startswith("/*", i):
            depth, j = 1, i + 2
            while j < n and depth:
                if txt.startswith("/*", j):
                    depth, j = depth + 1, j + 2
                elif txt.startswith("*/", j):
                    depth, j = depth - 1, j + 2
                else:
                    j += 1
            i = j
        else:
            out.append(c)
            i += 1
    return "".join(out)


def expanded_source(features=()):
    """the crate after macro expansion, or None"""
    src = src_dir()
    h = hashlib.sha256()
    for fn in sorted(os.listdir(src)):
        if fn.endswith(".rs"):
            h.update(fn.encode())
            h.update(open(os.path.join(src, fn), "rb").read())
    h.update(open(os.path.join(vlib.REPO, "jmespath", "Cargo.toml"), "rb").read())
    h.update(",".join(features).encode())
    cache = os.path.join(vlib.CACHE, "expand")
    os.makedirs(cache, exist_ok=True)
    path = os.path.join(cache, h.hexdigest()[:24] + ".rs")
    if os.path.exists(path):
        return open(path).read()
    cmd = ["cargo", "+nightly", "rustc", "--offline", "--lib"]
    if features:
        cmd += ["--features", ",".join(features)]
    cmd += ["--", "-Zunpretty=expanded"]
    env = dict(os.environ, CARGO_NET_OFFLINE="true", CARGO_TARGET_DIR=os.path.join(vlib.CACHE, "expand_target"))
    try:
        p = subprocess.run(cmd, cwd=os.path.join(vlib.REPO, "jmespath"), env=env, stdout=subprocess.PIPE, stderr=subprocess.PIPE, text=True, timeout=900)
    except Exception:
        return None
    if p.returncode != 0 or "fn register_builtin_functions" not in p.stdout:
        return None
    with open(path, "w") as f:
        f.write(p.stdout)
    return p.stdout


def balanced(txt, i, open_c, close_c):
    """txt[i] == open_c; returns the index just after the matching close (string literals skipped)"""
    depth, j, n = 0, i, len(txt)
    while j < n:
        c = txt[j]
        if c == '"':
            j += 1
            while j < n and txt[j] != '"':
                j += 2 if txt[j] == "\\" else 1
        elif c == open_c:
            depth += 1
        elif c == close_c:
            depth -= 1
            if depth == 0:
                return j + 1
        j += 1
    return -1


def const_env(txt):
    """usize constants and nullary const fns of the crate, as unevaluated expression texts"""
    env = {}
    for m in re.finditer(r"const\s+(\w+)\s*:\s*usize\s*=\s*([^;]+);", txt):
        env[m.group(1)] = m.group(2)
    for m in re.finditer(r"const\s+fn\s+(\w+)\s*\(\s*\)\s*->\s*usize\s*\{([^{}]*)\}", txt):
        env[m.group(1)] = m.group(2)
    # local bindings of constant expressions (lowest priority)
    for m in re.finditer(r"let\s+(\w+)\s*(?::\s*usize\s*)?=\s*([^;{}]+);", txt):
        env.setdefault(m.group(1), m.group(2))
    return env


def const_eval(expr, env, depth=0):
    """value of a constant usize expression (literals, + - * /, parentheses, constants, nullary const fn calls) or None"""
    if depth > 20:
        return None
    e = expr.strip()
    e = re.sub(r"\b(\w+::)+", "", e)                 # drop paths
    e = re.sub(r"(\w+)\s*\(\s*\)", r"\1", e)        # f() -> f
    e = re.sub(r"(?<=\d)_(?=\d)", "", e)             # 1_0 -> 10
    e = re.sub(r"(\d)(usize|u\d+|i\d+)\b", r"\1", e)  # suffixes
    e = re.sub(r"\bas\s+usize\b", "", e)
    if not re.fullmatch(r"[\w\s+\-*/()]+", e):
        return None
    def name(m):
        n = m.group(0)
        if re.fullmatch(r"\d+|0x[0-9a-fA-F]+|0b[01]+|0o[0-7]+", n):
            return n
        if n in env:
            v = const_eval(env[n], env, depth + 1)
            return "(%d)" % v if v is not None else "None"
        return "None"
    e2 = re.sub(r"\b\w+\b", name, e)
    if "None" in e2:
        return None
    try:
        v = eval(e2.replace("/", "//"), {"__builtins__": {}}, {})
        return int(v)
    except Exception:
        return None


def rcvar_kind(txt):
    """'Rc' / 'Arc' / None: what `pub type Rcvar = X<Variable>` denotes in this (cfg-resolved) text"""
    m = re.search(r"pub\s+type\s+Rcvar\s*=\s*([\w:]+)\s*<\s*Variable\s*>\s*;", txt)
    if not m:
        return None
    x = m.group(1)
    last = x.split("::")[-1]
    if last in ("Rc", "Arc") and ("::" not in x or x in ("std::rc::Rc", "std::sync::Arc", "alloc::rc::Rc", "alloc::sync::Arc", "::std::rc::Rc", "::std::sync::Arc")):
        if "::" in x or not re.search(r"use\s+[\w:]+\s+as\s+%s\s*;" % last, txt):
            return last
    mu = re.findall(r"use\s+(?:::)?(std|alloc)::(rc::Rc|sync::Arc)\s+as\s+%s\s*;" % re.escape(last), txt)
    if len(mu) == 1:
        return mu[0][1].split("::")[-1]
    return None


def fn_body(txt, header_regex):
    """body (between the braces) of the first item whose header matches, or None"""
    m = re.search(header_regex, txt)
    if not m:
        return None
    i = txt.find("{", m.end() - 1)
    if i < 0:
        return None
    j = balanced(txt, i, "{", "}")
    return txt[i + 1:j - 1] if j > 0 else None


# ---- a tiny expression reader for `Signature::new(<inputs>, <variadic>)` after expansion
def parse_expr(s, i):
    n = len(s)
    while i < n and s[i].isspace():
        i += 1
    if i < n and s[i] == "[":
        items, i = parse_items(s, i + 1, "]")
        return ("list", items), i
    j = i
    depth = 0
    while j < n and (depth > 0 or s[j] not in "()[],{}"):
        if s[j] == "<":
            depth += 1
        elif s[j] == ">":
            depth -= 1
        elif s[j] == "[" and depth > 0:
            k = s.index("]", j)
            j = k
        j += 1
    head = re.sub(r"#\[[^\]]*\]", "", s[i:j]).strip()
    if j < n and s[j] == "(":
        args, j = parse_items(s, j + 1, ")")
        return ("call", head, args), j
    k = j
    while k < n and s[k].isspace():
        k += 1
    if k < n and s[k] == "{" and re.match(r"[A-Za-z_][\w:]*$", head):
        fields, k = parse_fields(s, k + 1)
        return ("struct", head, fields), k
    return ("atom", head), j


def parse_fields(s, i):
    """`name: expr, ...}` (or shorthand `name,`) -> dict"""
    fields = {}
    n = len(s)
    while True:
        while i < n and s[i].isspace():
            i += 1
        if i < n and s[i] == "}":
            return fields, i + 1
        m = re.match(r"([A-Za-z_]\w*)\s*(:)?", s[i:])
        if not m:
            raise ValueError("field expected at %r" % s[i:i + 20])
        name = m.group(1)
        i += m.end()
        if m.group(2):
            e, i = parse_expr(s, i)
        else:
            e = ("atom", name)
        fields[name] = e
        while i < n and s[i].isspace():
            i += 1
        if i < n and s[i] == ",":
            i += 1


def parse_items(s, i, close):
    items = []
    n = len(s)
    while True:
        while i < n and s[i].isspace():
            i += 1
        if i < n and s[i] == close:
            return items, i + 1
        e, i = parse_expr(s, i)
        items.append(e)
        while i < n and s[i].isspace():
            i += 1
        if i < n and s[i] == ",":
            i += 1
        elif i < n and s[i] == close:
            return items, i + 1
        else:
            raise ValueError("unexpected %r at %d" % (s[i:i + 20], i))


def interp_type(e):
    """expression tree -> Coq argtype text | ('list', [...]) | None"""
    kind = e[0]
    if kind == "list":
        return ("list", [interp_type(x) for x in e[1]])
    head = e[1]
    last = head.split("::")[-1].strip()
    if "ArgumentType" in head:
        if kind == "atom":
            return ARG_ATOMS[last]
        if last == "TypedArray":
            return "(TyTypedArray %s)" % interp_type(e[2][0])
        if last == "Union":
            inner = interp_type(e[2][0])
            assert isinstance(inner, tuple)
            return "(TyUnion [" + "; ".join(inner[1]) + "])"
        raise KeyError(head)
    if kind == "atom":
        if last == "None":
            return "None"
        raise KeyError(head)
    if last == "new" and re.search(r"\bVec\b", head) and not e[2]:
        return ("list", [])          # Vec::new() / vec![]
    if last == "Some":
        return "(Some %s)" % interp_type(e[2][0])
    # wrappers (Box::new, vec! internals, into_vec, ...): the payload is the last argument that means something
    for a in reversed(e[2]):
        try:
            r = interp_type(a)
        except KeyError:
            continue
        if r is not None and r != "None":
            return r
    raise KeyError(head)


def subst(e, env):
    if e[0] == "atom":
        return env.get(e[1], e)
    if e[0] == "list":
        return ("list", [subst(x, env) for x in e[1]])
    if e[0] == "call":
        return ("call", e[1], [subst(x, env) for x in e[2]])
    if e[0] == "struct":
        return ("struct", e[1], {k: subst(v, env) for k, v in e[2].items()})
    return e


def signature_parts(e, helpers, depth=0):
    """expression tree of type Signature -> (inputs expr, variadic expr), looking through `Signature::new`, a
    `Signature { inputs, variadic }` literal and (one level of) free helper functions that just build one"""
    if e[0] == "call":
        last = e[1].split("::")[-1].strip()
        if e[1].replace(" ", "").endswith("Signature::new") and len(e[2]) == 2:
            return e[2][0], e[2][1]
        if last in helpers and depth < 3:
            params, body = helpers[last]
            if len(params) == len(e[2]):
                return signature_parts(subst(body, dict(zip(params, e[2]))), helpers, depth + 1)
    if e[0] == "struct" and e[1].split("::")[-1].strip() == "Signature" and set(e[2]) == {"inputs", "variadic"}:
        return e[2]["inputs"], e[2]["variadic"]
    raise ValueError("not a recognised Signature construction: %s" % (e[1] if len(e) > 1 else e[0]))


def read_helpers(txt):
    """free functions `fn f(p: T, ..) -> Signature { <single expression> }`"""
    helpers = {}
    for m in re.finditer(r"fn\s+(\w+)\s*\(([^)]*)\)\s*->\s*Signature\s*\{", txt):
        end = balanced(txt, m.end() - 1, "{", "}")
        if end < 0:
            continue
        body = txt[m.end():end - 1].strip()
        params = [p.split(":")[0].strip() for p in m.group(2).split(",") if p.strip() and not p.strip().startswith("&self") and p.strip() != "self"]
        try:
            e, j = parse_expr(body, 0)
            if body[j:].strip() == "":
                helpers[m.group(1)] = (params, e)
        except (ValueError, IndexError):
            pass
    return helpers


def read_constructor(txt, struct, helpers):
    """the Signature built by `impl <struct> { fn new() -> .. { <lets>; <struct> { signature: e } } }` as (inputs, variadic) expressions"""
    m = re.search(r"impl\s+%s\s*\{" % re.escape(struct), txt)
    while m:
        end = balanced(txt, m.end() - 1, "{", "}")
        block = txt[m.end():end - 1]
        mn = re.search(r"fn\s+new\s*\([^)]*\)\s*(->\s*[\w:]+\s*)?\{", block)
        if mn:
            bend = balanced(block, mn.end() - 1, "{", "}")
            body = block[mn.end():bend - 1]
            break
        m = re.search(r"impl\s+%s\s*\{" % re.escape(struct), txt[end:])
        if m:
            txt = txt[end:]
    else:
        raise ValueError("no `fn new` found")
    env = {}
    i = 0
    n = len(body)
    while True:
        while i < n and body[i].isspace():
            i += 1
        ml = re.match(r"let\s+(?:mut\s+)?(\w+)\s*(?::[^=;]*)?=\s*", body[i:])
        if ml:
            e, i = parse_expr(body, i + ml.end())
            env[ml.group(1)] = subst(e, env)
            while i < n and body[i].isspace():
                i += 1
            if i < n and body[i] == ";":
                i += 1
            else:
                raise ValueError("`;` expected after let")
            continue
        e, i = parse_expr(body, i)
        break
    e = subst(e, env)
    last = e[1].split("::")[-1].strip() if len(e) > 1 and isinstance(e[1], str) else ""
    if e[0] == "struct" and last in (struct, "Self") and "signature" in e[2]:
        return signature_parts(e[2]["signature"], helpers)
    if e[0] == "call" and last in ("new", struct):   # e.g. Self::from_signature(..): not understood
        raise ValueError("constructor delegates to %s" % e[1])
    raise ValueError("`%s { signature: .. }` not found at the end of new()" % struct)


def read_signatures(txt, structs, broken):
    """signatures of the given structs (those that get registered)"""
    sigs = {}
    helpers = read_helpers(txt)
    for name in structs:
        try:
            inputs_e, var_e = read_constructor(txt, name, helpers)
            inputs = interp_type(inputs_e)
            var = interp_type(var_e)
            if not isinstance(inputs, tuple):
                raise ValueError("inputs are not a list")
            sigs[name] = "mkSig [" + "; ".join(inputs[1]) + "] " + var
        except (KeyError, ValueError, AssertionError, IndexError) as ex:
            broken.append("functions.rs: signature of %s not understood (%s)" % (name, ex))
    return sigs


def expand_source_macros(fns):
    """raw-source fallback: rewrite defn!/arg! invocations into the expanded shape"""
    def arg(m):
        parts = [p.strip() for p in m.group(1).split("|")]
        names = {"any": "Any", "null": "Null", "string": "String", "bool": "Bool", "number": "Number", "object": "Object", "expref": "Expref",
                 "array": "Array", "array_number": "TypedArray(Box::new(ArgumentType::Number))", "array_string": "TypedArray(Box::new(ArgumentType::String))"}
        ts = ["ArgumentType::" + names[p] for p in parts]
        return ts[0] if len(ts) == 1 else "ArgumentType::Union([" + ", ".join(ts) + "])"
    out = [re.sub(r"macro_rules!\s*\w+\s*\{", "macro_rules_removed {", fns)]
    for m in re.finditer(r"defn!\s*[\(\{]", fns):
        end = balanced(fns, m.end() - 1, fns[m.end() - 1], ")" if fns[m.end() - 1] == "(" else "}")
        inner = fns[m.end():end - 1]
        if "$" in inner or "," not in inner:
            continue
        name, rest = inner.split(",", 1)
        rest = re.sub(r"arg!\s*\(([^()]*)\)", arg, rest)
        rest = re.sub(r"vec!\s*\[", "[", rest)
        name = name.strip()
        out.append("impl %s { pub fn new() -> %s { %s { signature: Signature::new(%s) } } }" % (name, name, name, rest.strip().rstrip(",")))
    return "\n".join(out)


BASELINE = os.path.join(os.path.dirname(os.path.abspath(__file__)), "tables_baseline.json")


def load_baseline():
    try:
        import json
        return json.load(open(BASELINE))
    except Exception:
        return None


def run():
    broken = []
    notes = []
    out = ["(* GENERATED by tools/translate.py from /repo/jmespath/src — do not edit *)",
           "From JP Require Import Base Sig.", ""]
    src = src_dir()
    raw = {fn: strip_comments(open(os.path.join(src, fn)).read()) for fn in sorted(os.listdir(src)) if fn.endswith(".rs")}
    exp = expanded_source()
    if exp is None:
        notes.append("macro expansion unavailable: reading the raw source")
        whole = "\n".join(raw.values())
        sig_txt = expand_source_macros(raw.get("functions.rs", ""))
    else:
        whole = exp
        sig_txt = exp

    # ---- binding powers (Token::lbp) and the projection-stop threshold as it is used
    env = const_env(whole)
    body = fn_body(whole, r"fn\s+lbp\s*\(\s*&self\s*\)\s*->\s*usize\s*\{")
    lbp = {}
    default = None

    def pats(text):
        return [n.strip().lstrip("&").strip().split("::")[-1] for n in re.sub(r"\([^)]*\)|\{[^}]*\}", "", text).split("|")]

    if body is None:
        broken.append("lexer.rs: Token::lbp not found")
    else:
        # the function is *evaluated* for every token kind (early returns, if-let chains, helper predicates, nested matches,
        # local constants); a constant table of (variant, value) pairs looked up by discriminant is read as a fallback
        import lbpeval
        try:
            lbp = lbpeval.table(whole, "lbp", TOKENS, const_eval, env)
        except lbpeval.NotUnderstood as e1:
            try:
                lbp = lbpeval.pair_table(whole, body, TOKENS, const_eval, env)
            except lbpeval.NotUnderstood as e2:
                lbp = {}
                broken.append("lexer.rs: Token::lbp not understood (%s; %s)" % (str(e1)[:60], str(e2)[:40]))
        except Exception as e:      # a reader bug must not become a wrong table
            lbp = {}
            broken.append("lexer.rs: Token::lbp not understood (%s)" % type(e).__name__)
        for t in TOKENS:
            lbp.setdefault(t, 0)
    # threshold of the stop test `<token>.lbp() < C` (or `<=`, or mirrored `C > <token>.lbp()`), wherever it is written;
    # the loop test `rbp < <token>.lbp()` has the binding power on the other side and is not a candidate
    stop = None
    cands = []
    for m in re.finditer(r"\.lbp\(\)\s*(<=|<)\s*([\w:]+(?:\s*\(\s*\))?|\d+)", whole):
        cands.append((m.group(1), m.group(2)))
    for m in re.finditer(r"([\w:]+(?:\s*\(\s*\))?|\d+)\s*(>=|>)\s*[\w.]+(?:\([^()]*\))?\.lbp\(\)", whole):
        cands.append(({">": "<", ">=": "<="}[m.group(2)], m.group(1)))
    vals = set()

    def with_lbp(expr):
        return re.sub(r"\b(?:\w+\s*::\s*)*(\w+)\s*\.\s*lbp\s*\(\s*\)", lambda mm: str(lbp[mm.group(1)]) if mm.group(1) in lbp else mm.group(0), expr)
    env = {k: with_lbp(v) for k, v in env.items()}
    for op, c in cands:
        v = const_eval(with_lbp(c), env)
        if v is not None:
            vals.add(v if op == "<" else v + 1)
    if len(vals) == 1:
        stop = vals.pop()
    else:
        broken.append("parser.rs: projection-stop comparison not understood (%s)" % cands[:4])
    if stop is None:
        stop = const_eval("PROJECTION_STOP", env) or 0
    base = load_baseline()
    if any(b.startswith(("lexer.rs", "parser.rs")) for b in broken) and base:
        # not understood: the model keeps the tables of the baseline tree (the obligation stays broken)
        lbp, stop = base["lbp"], base["stop"]
        notes.append("binding powers not understood: baseline tables used for the model")
    out.append("Inductive tk := " + " | ".join("K" + t for t in TOKENS) + ".")
    out.append("Definition gen_lbp (t : tk) : Z :=\n  match t with\n" +
               "\n".join("  | K%s => %d" % (t, lbp.get(t, 0)) for t in TOKENS) + "\n  end.")
    out.append("(* the threshold T of the stop test [lbp < T] of projection_rhs *)")
    out.append("Definition gen_projection_stop : Z := %d." % stop)
    out.append("")

    # ---- registrations, then the signature built by the constructor of every registered struct
    reg_body = fn_body(whole, r"fn\s+register_builtin_functions\s*\(")
    regs = []
    if reg_body is None:
        broken.append("runtime.rs: register_builtin_functions not found")
    else:
        implementors = set(re.findall(r"impl\s+Function\s+for\s+(\w+)", whole))

        def pairs(text):
            """(name, struct) for every string literal followed, in the same comma-separated group, by one
            expression that names exactly one implementor of `Function` (a constructor call, a boxed constructor,
            a generic instantiation such as `boxed::<AbsFn>`, ...)."""
            found = []
            for m in re.finditer(r'"(\w+)"(?:\s*\.\s*\w+\s*\(\s*\))*\s*,', text):
                i = m.end()
                depth = 0
                j = i
                while j < len(text):
                    ch = text[j]
                    if ch in "([{<" and not (ch == "<" and text[j - 1:j] not in (":",)):
                        depth += 1
                    elif ch in ")]}" or (ch == ">" and depth > 0 and text[j - 1:j] != "-" and text[j - 1:j] != "="):
                        if depth == 0:
                            break
                        depth -= 1
                    elif ch in ",;" and depth == 0:
                        break
                    j += 1
                ids = [w for w in re.findall(r"\b[A-Za-z_]\w*\b", text[i:j]) if w in implementors]
                if len(set(ids)) == 1:
                    found.append((m.group(1), ids[0]))
            return found

        regs = pairs(reg_body)
        n_calls = len(re.findall(r'"\w+"', reg_body))
        if len(regs) == 0:
            # the (name, implementation) pairs may be tabulated elsewhere and registered in a loop:
            # first the constants / statics the function refers to, then anywhere in the crate
            for cname in dict.fromkeys(re.findall(r"\b[A-Z][A-Z0-9_]{2,}\b", reg_body)):
                m = re.search(r"\b(?:const|static)\s+%s\s*:[^=;]*=\s*" % re.escape(cname), whole)
                if m:
                    depth, k = 0, m.end()
                    while k < len(whole):
                        ch = whole[k]
                        if ch == '"':
                            k += 1
                            while k < len(whole) and whole[k] != '"':
                                k += 2 if whole[k] == "\\" else 1
                        elif ch in "([{":
                            depth += 1
                        elif ch in ")]}":
                            depth -= 1
                        elif ch == ";" and depth == 0:
                            break
                        k += 1
                    regs = pairs(whole[m.end():k])
                    if regs:
                        break
            if len(regs) == 0:
                nullary = set(re.findall(r"impl\s+(\w+)\s*\{[^}]*?fn\s+new\s*\(\s*\)", whole))
                regs = [(nm, st) for nm, st in pairs(whole) if st in nullary or not nullary]
            n_calls = len(regs)
            if regs:
                notes.append("registrations read from a table outside register_builtin_functions")
        if len(regs) == 0:
            broken.append("runtime.rs: no builtin registrations found")
        elif n_calls != len(regs):
            broken.append("runtime.rs: %d string literals but %d registrations understood" % (n_calls, len(regs)))
    sigs = read_signatures(sig_txt, list(dict.fromkeys(st for _, st in regs)), broken)
    # ---- the signatures as the implementation itself reports them (arity and type errors name the declared arity and types):
    # a fallback when the construction in the source is not understood, and a cross-check against silent misreads when it is
    try:
        import sigprobe
        exe, _ = vlib.build_harness()
        if exe and regs:
            run1 = lambda lines: vlib.run_exe(exe, lines, timeout=120, shards=1)
            for nm, st in regs:
                try:
                    pr = sigprobe.probe(run1, nm)
                except Exception:
                    pr = None
                if pr is None:
                    continue
                if st not in sigs:
                    sigs[st] = pr
                    broken[:] = [b for b in broken if not (b.startswith("functions.rs:") and re.search(r"\b%s\b" % re.escape(st), b))]
                    notes.append("signature of %s inferred from the implementation's own error reports (its construction in the source is not understood)" % st)
                elif sigs[st] != pr:
                    broken.append("functions.rs: the signature of %s read from the source (%s) is not the one the implementation enforces (%s)" % (st, sigs[st], pr))
    except Exception as ex:      # the probe is an aid, never a reason to fail
        notes.append("signature probe unavailable: %s" % type(ex).__name__)
    out.append("(* registration order of register_builtin_functions: (name, implementing struct, signature of that struct) *)")
    rows = []
    for nm, st in regs:
        if st not in sigs:
            broken.append("functions.rs: no signature read for %s" % st)
            continue
        rows.append("  (%s, %s, %s)" % (coq_str(nm), coq_str(st), sigs[st]))
    if any(b.startswith(("functions.rs", "runtime.rs")) for b in broken) and base:
        rows = base["rows"]
        notes.append("registrations / signatures not understood: baseline registry used for the model")
    out.append("Definition gen_registry : list (str * str * signature) := [\n" + ";\n".join(rows) + "\n].")
    out.append("")

    # ---- source facts (lib.rs, functions.rs) for C16
    lib = raw.get("lib.rs", "")
    fns = raw.get("functions.rs", "")
    allraw = "\n".join(raw.values())
    exp_sync = expanded_source(("sync",)) if exp is not None else None
    if exp is not None and exp_sync is not None:
        rc_default, rc_sync = rcvar_kind(exp) == "Rc", rcvar_kind(exp_sync) == "Arc"
    else:
        rc_default = bool(re.search(r'#\[cfg\(not\(feature\s*=\s*"sync"\)\)\]\s*pub\s+type\s+Rcvar\s*=\s*(?:std::rc::)?Rc<Variable>\s*;', lib))
        rc_sync = bool(re.search(r'#\[cfg\(feature\s*=\s*"sync"\)\]\s*pub\s+type\s+Rcvar\s*=\s*(?:std::sync::)?Arc<Variable>\s*;', lib))
    facts = {
        "rcvar_rc_without_sync": rc_default,
        "rcvar_arc_with_sync": rc_sync,
        "function_requires_send_sync": bool(re.search(r"pub\s+trait\s+Function\s*:\s*(Sync\s*\+\s*Send|Send\s*\+\s*Sync)\s*\{", allraw)),
        # a lazily initialised immutable static of type Runtime (what the initialiser registers is decided by behaviour: C06/C15)
        "default_runtime_lazy_static": bool(re.search(r"lazy_static!\s*\{[^{}]*pub\s+static\s+ref\s+DEFAULT_RUNTIME\s*:\s*Runtime\s*=", allraw)),
    }
    sites = {"interior_mutability": [], "unsafe": [], "static_mut": [], "rc_outside_alias": []}
    for fn, txt in raw.items():
        code = txt.split("#[cfg(test)]")[0]
        for i, line in enumerate(code.splitlines(), 1):
            if re.search(r"\b(RefCell|Cell|UnsafeCell|Mutex|RwLock|AtomicU\w+|AtomicI\w+|AtomicBool|AtomicPtr|OnceCell|thread_local)\b", line):
                sites["interior_mutability"].append("%s:%d" % (fn, i))
            if re.search(r"\bunsafe\b", line):
                sites["unsafe"].append("%s:%d" % (fn, i))
            if re.search(r"\bstatic\s+mut\b", line):
                sites["static_mut"].append("%s:%d" % (fn, i))
            if re.search(r"\bRc\b", line) and not re.search(r"pub\s+type\s+Rcvar\s*=\s*(?:std::rc::)?Rc<Variable>\s*;", line):
                sites["rc_outside_alias"].append("%s:%d" % (fn, i))
    if exp_sync is not None:
        # what matters is an `Rc` that is still compiled when the `sync` feature is on
        code = re.sub(r"#\[doc[^\]]*\]|///[^\n]*|//![^\n]*", "", exp_sync)
        sites["rc_outside_alias"] = ["sync-expansion:%d" % m.start() for m in re.finditer(r"\bRc\b", code)]
    for k, v in facts.items():
        out.append("Definition gen_%s : bool := %s." % (k, "true" if v else "false"))
    for k, v in sites.items():
        out.append("Definition gen_%s_sites : Z := %d.  (* %s *)" % (k, len(v), ", ".join(v)[:200].replace("*)", "")))
    out.append("")
    vlib.write_if_changed(os.path.join(vlib.COQ, "theories", "Gen", "Tables.v"), "\n".join(out) + "\n")
    run.notes = notes
    run.parsed = {"lbp": lbp, "stop": stop, "rows": rows}
    return broken


run.notes = []

run.parsed = {}

if __name__ == "__main__":
    import sys
    b = run()
    print(b, run.notes)
    if "--write-baseline" in sys.argv:
        assert not b, "the tree is not understood: no baseline written"
        import json
        json.dump(run.parsed, open(BASELINE, "w"), indent=1)
        print("baseline written")
