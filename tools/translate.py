"""Translator: re-extracts the declarative tables of /repo's current working tree
into coq/theories/Gen/Tables.v on every run.

Front end: the crate as rustc sees it — `cargo +nightly rustc -- -Zunpretty=expanded`
(comments gone, macros expanded, canonical layout), so that re-layouts, comments,
macro re-arrangements and helper macros in the source do not disturb the reading.
When the expansion is unavailable the raw source (comments stripped) is read with
the same recognisers.  A table that cannot be *understood* is reported as a broken
translator obligation; it is never guessed (the caller turns it into a violation
with `no-failing-input-found` unless a failing input is found)."""
import hashlib
import os
import re
import subprocess

import vlib

TOKENS = ["Identifier", "QuotedIdentifier", "Number", "Literal", "Dot", "Star", "Flatten", "And", "Or", "Pipe",
          "Filter", "Lbracket", "Rbracket", "Comma", "Colon", "Not", "Ne", "Eq", "Gt", "Gte", "Lt", "Lte", "At",
          "Ampersand", "Lparen", "Rparen", "Lbrace", "Rbrace", "Eof"]

ARG_ATOMS = {"Any": "TyAny", "Null": "TyNull", "String": "TyString", "Bool": "TyBool", "Number": "TyNumber",
             "Object": "TyObject", "Expref": "TyExpref", "Array": "TyArray"}


def coq_str(s):
    return "[" + ";".join(str(ord(c)) for c in s) + "]"


def src_dir():
    return os.path.join(vlib.REPO, "jmespath", "src")


def strip_comments(txt):
    """remove // and /* */ comments, keeping string and char literals intact"""
    out = []
    i, n = 0, len(txt)
    while i < n:
        c = txt[i]
        if c == '"':
            j = i + 1
            while j < n and txt[j] != '"':
                j += 2 if txt[j] == "\\" else 1
            out.append(txt[i:j + 1])
            i = j + 1
        elif c == "'" and re.match(r"'(\\.[^']*|[^'\\])'", txt[i:i + 12]):
            m = re.match(r"'(\\.[^']*|[^'\\])'", txt[i:i + 12])
            out.append(m.group(0))
            i += m.end()
        elif txt.startswith("//", i):
            j = txt.find("\n", i)
            i = n if j < 0 else j
        elif txt.startswith("/*", i):
            depth, j = 1, i + 2
            while j < n and depth:
                if txt.startswith("/*", j):
                    depth, j = depth + 1, j + 2
                elif txt.startswith("*/", j):
                    depth, j = depth - 1, j + 2
                else:
                    j += 1
            i = j
        else:
            out.append(c)
            i += 1
    return "".join(out)


def expanded_source(features=()):
    """the crate after macro expansion, or None"""
    src = src_dir()
    h = hashlib.sha256()
    for fn in sorted(os.listdir(src)):
        if fn.endswith(".rs"):
            h.update(fn.encode())
            h.update(open(os.path.join(src, fn), "rb").read())
    h.update(open(os.path.join(vlib.REPO, "jmespath", "Cargo.toml"), "rb").read())
    h.update(",".join(features).encode())
    cache = os.path.join(vlib.CACHE, "expand")
    os.makedirs(cache, exist_ok=True)
    path = os.path.join(cache, h.hexdigest()[:24] + ".rs")
    if os.path.exists(path):
        return open(path).read()
    cmd = ["cargo", "+nightly", "rustc", "--offline", "--lib"]
    if features:
        cmd += ["--features", ",".join(features)]
    cmd += ["--", "-Zunpretty=expanded"]
    env = dict(os.environ, CARGO_NET_OFFLINE="true", CARGO_TARGET_DIR=os.path.join(vlib.CACHE, "expand_target"))
    try:
        p = subprocess.run(cmd, cwd=os.path.join(vlib.REPO, "jmespath"), env=env, stdout=subprocess.PIPE, stderr=subprocess.PIPE, text=True, timeout=900)
    except Exception:
        return None
    if p.returncode != 0 or "fn register_builtin_functions" not in p.stdout:
        return None
    with open(path, "w") as f:
        f.write(p.stdout)
    return p.stdout


def balanced(txt, i, open_c, close_c):
    """txt[i] == open_c; returns the index just after the matching close (string literals skipped)"""
    depth, j, n = 0, i, len(txt)
    while j < n:
        c = txt[j]
        if c == '"':
            j += 1
            while j < n and txt[j] != '"':
                j += 2 if txt[j] == "\\" else 1
        elif c == open_c:
            depth += 1
        elif c == close_c:
            depth -= 1
            if depth == 0:
                return j + 1
        j += 1
    return -1


def fn_body(txt, header_regex):
    """body (between the braces) of the first item whose header matches, or None"""
    m = re.search(header_regex, txt)
    if not m:
        return None
    i = txt.find("{", m.end() - 1)
    if i < 0:
        return None
    j = balanced(txt, i, "{", "}")
    return txt[i + 1:j - 1] if j > 0 else None


# ---- a tiny expression reader for `Signature::new(<inputs>, <variadic>)` after expansion
def parse_expr(s, i):
    n = len(s)
    while i < n and s[i].isspace():
        i += 1
    if i < n and s[i] == "[":
        items, i = parse_items(s, i + 1, "]")
        return ("list", items), i
    j = i
    depth = 0
    while j < n and (depth > 0 or s[j] not in "()[],"):
        if s[j] == "<":
            depth += 1
        elif s[j] == ">":
            depth -= 1
        elif s[j] == "[" and depth > 0:
            k = s.index("]", j)
            j = k
        j += 1
    head = re.sub(r"#\[[^\]]*\]", "", s[i:j]).strip()
    if j < n and s[j] == "(":
        args, j = parse_items(s, j + 1, ")")
        return ("call", head, args), j
    return ("atom", head), j


def parse_items(s, i, close):
    items = []
    n = len(s)
    while True:
        while i < n and s[i].isspace():
            i += 1
        if i < n and s[i] == close:
            return items, i + 1
        e, i = parse_expr(s, i)
        items.append(e)
        while i < n and s[i].isspace():
            i += 1
        if i < n and s[i] == ",":
            i += 1
        elif i < n and s[i] == close:
            return items, i + 1
        else:
            raise ValueError("unexpected %r at %d" % (s[i:i + 20], i))


def interp_type(e):
    """expression tree -> Coq argtype text | ('list', [...]) | None"""
    kind = e[0]
    if kind == "list":
        return ("list", [interp_type(x) for x in e[1]])
    head = e[1]
    last = head.split("::")[-1].strip()
    if "ArgumentType" in head:
        if kind == "atom":
            return ARG_ATOMS[last]
        if last == "TypedArray":
            return "(TyTypedArray %s)" % interp_type(e[2][0])
        if last == "Union":
            inner = interp_type(e[2][0])
            assert isinstance(inner, tuple)
            return "(TyUnion [" + "; ".join(inner[1]) + "])"
        raise KeyError(head)
    if kind == "atom":
        if last == "None":
            return "None"
        raise KeyError(head)
    if last == "Some":
        return "(Some %s)" % interp_type(e[2][0])
    # wrappers (Box::new, vec! internals, into_vec, ...): the payload is the last argument that means something
    for a in reversed(e[2]):
        try:
            r = interp_type(a)
        except KeyError:
            continue
        if r is not None and r != "None":
            return r
    raise KeyError(head)


def read_signatures(txt, broken):
    sigs = {}
    for m in re.finditer(r"Signature::new\s*\(", txt):
        end = balanced(txt, m.end() - 1, "(", ")")
        if end < 0:
            continue
        # the struct being constructed: `Name { signature: Signature::new(`
        pre = txt[max(0, m.start() - 200):m.start()]
        mm = re.findall(r"(\w+)\s*\{\s*signature\s*:\s*$", pre)
        if not mm:
            continue
        name = mm[-1]
        if "$" in txt[m.start() - 40:end]:
            continue            # the macro definition itself
        try:
            args, _ = parse_items(txt, m.end(), ")")
            if len(args) != 2:
                raise ValueError("Signature::new with %d arguments" % len(args))
            inputs = interp_type(args[0])
            var = interp_type(args[1])
            if not isinstance(inputs, tuple):
                raise ValueError("inputs are not a list")
            sigs[name] = "mkSig [" + "; ".join(inputs[1]) + "] " + var
        except (KeyError, ValueError, AssertionError, IndexError) as ex:
            broken.append("functions.rs: signature of %s not understood (%s)" % (name, ex))
    return sigs


def expand_source_macros(fns):
    """raw-source fallback: rewrite defn!/arg! invocations into the expanded shape"""
    def arg(m):
        parts = [p.strip() for p in m.group(1).split("|")]
        names = {"any": "Any", "null": "Null", "string": "String", "bool": "Bool", "number": "Number", "object": "Object", "expref": "Expref",
                 "array": "Array", "array_number": "TypedArray(Box::new(ArgumentType::Number))", "array_string": "TypedArray(Box::new(ArgumentType::String))"}
        ts = ["ArgumentType::" + names[p] for p in parts]
        return ts[0] if len(ts) == 1 else "ArgumentType::Union([" + ", ".join(ts) + "])"
    out = []
    for m in re.finditer(r"defn!\s*[\(\{]", fns):
        end = balanced(fns, m.end() - 1, fns[m.end() - 1], ")" if fns[m.end() - 1] == "(" else "}")
        inner = fns[m.end():end - 1]
        name, rest = inner.split(",", 1)
        rest = re.sub(r"arg!\s*\(([^()]*)\)", arg, rest)
        rest = re.sub(r"vec!\s*\[", "[", rest)
        out.append("%s { signature: Signature::new(%s)" % (name.strip(), rest.strip().rstrip(",")))
    return "\n".join(out)


def run():
    broken = []
    notes = []
    out = ["(* GENERATED by tools/translate.py from /repo/jmespath/src — do not edit *)",
           "From JP Require Import Base Sig.", ""]
    src = src_dir()
    raw = {fn: strip_comments(open(os.path.join(src, fn)).read()) for fn in sorted(os.listdir(src)) if fn.endswith(".rs")}
    exp = expanded_source()
    if exp is None:
        notes.append("macro expansion unavailable: reading the raw source")
        whole = "\n".join(raw.values())
        sig_txt = expand_source_macros(raw.get("functions.rs", ""))
    else:
        whole = exp
        sig_txt = exp

    # ---- binding powers (Token::lbp) and the projection-stop threshold as it is used
    body = fn_body(whole, r"fn\s+lbp\s*\(\s*&self\s*\)\s*->\s*usize\s*\{")
    lbp = {}
    default = None
    if body is None:
        broken.append("lexer.rs: Token::lbp not found")
    else:
        mb = re.search(r"match\s+\*?self\s*\{", body)
        arms = body[mb.end():] if mb else body
        for arm in re.finditer(r"((?:[A-Za-z_:]+\s*\|\s*)*[A-Za-z_:]+)\s*(?:\([^)]*\))?\s*=>\s*(\d+)\s*,?", arms):
            for n in arm.group(1).split("|"):
                n = n.strip().split("::")[-1]
                if n == "_":
                    default = int(arm.group(2))
                elif n in TOKENS:
                    lbp[n] = int(arm.group(2))
                else:
                    broken.append("lexer.rs: unknown token %r in lbp" % n)
        if default is None and len(lbp) < len(TOKENS):
            broken.append("lexer.rs: lbp has no default arm")
        if not lbp:
            broken.append("lexer.rs: no binding powers read")
        for t in TOKENS:
            lbp.setdefault(t, default or 0)
    # threshold: `t.lbp() < C` (or `<=`, or mirrored), C a constant of parser.rs
    stop = None
    consts = {m.group(1): int(m.group(2)) for m in re.finditer(r"const\s+(\w+)\s*:\s*usize\s*=\s*(\d+)\s*;", whole)}
    prhs = fn_body(whole, r"fn\s+projection_rhs\s*\(")
    if prhs is None:
        broken.append("parser.rs: projection_rhs not found")
    else:
        cands = []
        for m in re.finditer(r"\.lbp\(\)\s*(<=|<)\s*(\w+)", prhs):
            cands.append((m.group(1), m.group(2)))
        for m in re.finditer(r"(\w+)\s*(>=|>)\s*\w+\.lbp\(\)", prhs):
            cands.append(({">": "<", ">=": "<="}[m.group(2)], m.group(1)))
        vals = set()
        for op, c in cands:
            v = consts.get(c, int(c) if c.isdigit() else None)
            if v is not None:
                vals.add(v if op == "<" else v + 1)
        if len(vals) == 1:
            stop = vals.pop()
        else:
            broken.append("parser.rs: projection-stop comparison not understood (%s)" % cands)
    if stop is None:
        stop = consts.get("PROJECTION_STOP", 0)
    out.append("Inductive tk := " + " | ".join("K" + t for t in TOKENS) + ".")
    out.append("Definition gen_lbp (t : tk) : Z :=\n  match t with\n" +
               "\n".join("  | K%s => %d" % (t, lbp.get(t, 0)) for t in TOKENS) + "\n  end.")
    out.append("(* the threshold T of the stop test [lbp < T] of projection_rhs *)")
    out.append("Definition gen_projection_stop : Z := %d." % stop)
    out.append("")

    # ---- signatures (every `X { signature: Signature::new(..) }`) and registrations
    sigs = read_signatures(sig_txt, broken)
    reg_body = fn_body(whole, r"fn\s+register_builtin_functions\s*\(")
    regs = []
    if reg_body is None:
        broken.append("runtime.rs: register_builtin_functions not found")
    else:
        regs = re.findall(r'"(\w+)"\s*,\s*(?:Box::new\s*\(\s*)?(\w+)::new\s*\(\s*\)', reg_body)
        n_calls = len(re.findall(r'"\w+"', reg_body))
        if len(regs) == 0:
            broken.append("runtime.rs: no builtin registrations found")
        elif n_calls != len(regs):
            broken.append("runtime.rs: %d string literals but %d registrations understood" % (n_calls, len(regs)))
    out.append("(* registration order of register_builtin_functions: (name, implementing struct, signature of that struct) *)")
    rows = []
    for nm, st in regs:
        if st not in sigs:
            broken.append("functions.rs: no signature read for %s" % st)
            continue
        rows.append("  (%s, %s, %s)" % (coq_str(nm), coq_str(st), sigs[st]))
    out.append("Definition gen_registry : list (str * str * signature) := [\n" + ";\n".join(rows) + "\n].")
    out.append("")

    # ---- source facts (lib.rs, functions.rs) for C16
    lib = raw.get("lib.rs", "")
    fns = raw.get("functions.rs", "")
    allraw = "\n".join(raw.values())
    facts = {
        "rcvar_rc_without_sync": bool(re.search(r'#\[cfg\(not\(feature\s*=\s*"sync"\)\)\]\s*pub\s+type\s+Rcvar\s*=\s*(?:std::rc::)?Rc<Variable>\s*;', lib)),
        "rcvar_arc_with_sync": bool(re.search(r'#\[cfg\(feature\s*=\s*"sync"\)\]\s*pub\s+type\s+Rcvar\s*=\s*(?:std::sync::)?Arc<Variable>\s*;', lib)),
        "function_requires_send_sync": bool(re.search(r"pub\s+trait\s+Function\s*:\s*(Sync\s*\+\s*Send|Send\s*\+\s*Sync)\s*\{", allraw)),
        # a lazily initialised immutable static of type Runtime (what the initialiser registers is decided by behaviour: C06/C15)
        "default_runtime_lazy_static": bool(re.search(r"lazy_static!\s*\{[^{}]*pub\s+static\s+ref\s+DEFAULT_RUNTIME\s*:\s*Runtime\s*=", lib)),
    }
    sites = {"interior_mutability": [], "unsafe": [], "static_mut": [], "rc_outside_alias": []}
    for fn, txt in raw.items():
        code = txt.split("#[cfg(test)]")[0]
        for i, line in enumerate(code.splitlines(), 1):
            if re.search(r"\b(RefCell|Cell|UnsafeCell|Mutex|RwLock|AtomicU\w+|AtomicI\w+|AtomicBool|AtomicPtr|OnceCell|thread_local)\b", line):
                sites["interior_mutability"].append("%s:%d" % (fn, i))
            if re.search(r"\bunsafe\b", line):
                sites["unsafe"].append("%s:%d" % (fn, i))
            if re.search(r"\bstatic\s+mut\b", line):
                sites["static_mut"].append("%s:%d" % (fn, i))
            if re.search(r"\bRc\b", line) and not re.search(r"pub\s+type\s+Rcvar\s*=\s*(?:std::rc::)?Rc<Variable>\s*;", line):
                sites["rc_outside_alias"].append("%s:%d" % (fn, i))
    for k, v in facts.items():
        out.append("Definition gen_%s : bool := %s." % (k, "true" if v else "false"))
    for k, v in sites.items():
        out.append("Definition gen_%s_sites : Z := %d.  (* %s *)" % (k, len(v), ", ".join(v)[:200].replace("*)", "")))
    out.append("")
    vlib.write_if_changed(os.path.join(vlib.COQ, "theories", "Gen", "Tables.v"), "\n".join(out) + "\n")
    run.notes = notes
    return broken


run.notes = []

if __name__ == "__main__":
    print(run(), run.notes)
