"""Generic flow of one property check (DESIGN.md section 2.3)."""
import importlib
import json
import os
import glob
import random
import re
import time

import vlib
from vlib import log

TRUSTED_BASE = [
    "Coq 8.16.1 kernel incl. vm_compute (no native_compute)",
    "axioms: none beyond those printed per theorem by Print Assumptions (allow-list: the four stdlib axioms of Flocq's real layer, used only where stated)",
    "extraction: ExtrOcamlBasic only, no Extract Constant; OCaml 4.13.1; ocaml/driver.ml",
    "tools/translate.py (source tables -> Gen/*.v), generators, differ, Rust harness, rustc/cargo",
    "hand-written model of third-party behaviour (serde_json reader/printer, BTreeMap/HashMap, slice::sort stability, std float ops = IEEE binary64) validated by correspondence only",
]


def canon(obs):
    """Canonical form used to compare a model observation with an implementation observation."""
    if obs.startswith("PANIC"):
        return "TRAP"
    if obs.startswith("ABORT") or obs.startswith("TIMEOUT"):
        return "DIVERGE"
    if obs == "OOF":
        return "DIVERGE"
    return obs


class Prop:
    id = "C00"
    title = ""
    has_props = True          # theories/Props/<id>.v exists
    features = ()
    release_too = False
    impl_timeout = 120
    assumptions = []
    rule = ""

    def cases(self, rng, tier):
        """-> list of case lines"""
        return []

    def corpus(self):
        p = os.path.join(vlib.ROOT, "corpus", self.id + ".txt")
        if os.path.exists(p):
            return [l.rstrip("\n") for l in open(p) if l.strip() and not l.startswith("#")]
        return []

    def nontrivial(self, case, mobs):
        return not (mobs.endswith(" n") or mobs.startswith("ERR parse 0 ") or mobs == "OK [ ]")

    def spec_line(self, case):
        """case line for the executable specification (extracted from Coq), or None"""
        return None

    def spec_equal(self, sobs, iobs):
        return canon(sobs) == canon(iobs)

    def oracle(self, case, iobs):
        """Independent oracle on the implementation's observation: None if fine, else a message."""
        return None

    def extra(self, ctx):
        """Property-specific additional checks; returns list of (kind, dict) findings."""
        return []

    def shrink_candidates(self, case):
        return []


def known_match(known, pid, case, iobs, model_agrees=False):
    for k in known:
        if k.get("property") != pid or not str(k.get("status", "")).startswith("open"):
            continue
        m = k.get("match", {})
        # a deviation of the code *as modelled* from the specification: only when the implementation still behaves as its model
        if m.get("requires_model_agreement") and not model_agrees:
            continue
        if "case_regex" in m and not re.search(m["case_regex"], case):
            continue
        if "impl_regex" in m and not re.search(m["impl_regex"], iobs):
            continue
        return k
    return None


def judge(P, case, mobs, iobs, known, sobs=None):
    """-> (status, detail); status in ok | unmodelled | known | violation"""
    if sobs is not None and sobs not in ("UNMODELLED", "BADCASE") and not P.spec_equal(sobs, iobs) and (canon(mobs) == canon(iobs) or mobs == "UNMODELLED"):
        k = known_match(known, P.id, case, iobs, model_agrees=canon(mobs) == canon(iobs))
        if k:
            return "known", k["id"]
        return "violation", "implementation differs from the specification: specified %s, observed %s" % (sobs, iobs)
    if mobs == "BADCASE" or iobs == "BADCASE":
        return "violation", "machinery: case line not understood (model=%s impl=%s)" % (mobs, iobs)
    if mobs == "UNMODELLED":
        o = P.oracle(case, iobs)
        if o:
            k = known_match(known, P.id, case, iobs)
            return ("known", k["id"]) if k else ("violation", o)
        return "unmodelled", ""
    problem = None
    if canon(mobs) != canon(iobs):
        if sobs is not None and sobs not in ("UNMODELLED", "BADCASE") and P.spec_equal(sobs, iobs) and not P.spec_equal(sobs, mobs):
            # the implementation agrees with the specification oracle (which does not depend on anything read from the source):
            # it is the model - i.e. what the translator read - that is off; not a failing input of the implementation
            return "modelbroken", "model answers %s where implementation and specification oracle agree on %s" % (mobs[:80], iobs[:80])
        problem = "implementation differs from the specification-equivalent model: expected %s, observed %s" % (mobs, iobs)
    elif canon(mobs) in ("TRAP", "DIVERGE"):
        problem = "implementation does not return: %s (model: %s)" % (iobs, mobs)
    else:
        o = P.oracle(case, iobs)
        if o:
            problem = o
    if problem is None:
        return "ok", ""
    k = known_match(known, P.id, case, iobs, model_agrees=canon(mobs) == canon(iobs))
    if k:
        return "known", k["id"]
    return "violation", problem


def shrink(P, case, still_fails, budget=300):
    cur = case
    n = 0
    progress = True
    while progress and n < budget:
        progress = False
        for cand in P.shrink_candidates(cur):
            n += 1
            if n >= budget:
                break
            if cand != cur and still_fails(cand):
                cur = cand
                progress = True
                break
    return cur


def run_property(P, tier, seed, replay=None):
    t0 = time.time()
    vlib.ensure_dirs()
    known = vlib.load_known()
    violations = []      # (replay_path, no_input_flag)
    notes = []
    broken = []          # names of broken obligations

    # 1. translator
    import translate
    tr_broken = translate.run()
    for b in tr_broken:
        broken.append("translator:" + b)
    for nt in getattr(translate.run, "notes", []):
        notes.append("translator: " + nt)

    # 2. proofs
    obligations = []
    if P.has_props and os.path.exists(os.path.join(vlib.COQ, 'theories', 'Props', P.id + '.v')):
        pc = vlib.props_check(P.id)
        obligations = pc["obligations"]
        if not pc["ok"]:
            broken.append("theorem:%s" % pc["failing"])
            notes.append("coq build failed: " + pc["log"][-1500:])
        for ob in obligations:
            if ob["status"] != "discharged" and pc["ok"]:
                broken.append("theorem:%s (%s)" % (ob["name"], ob["status"]))
    coqchk = None
    if tier == "thorough" and obligations and not broken:
        # independent re-check of the compiled proofs and everything they depend on
        rc, out = vlib.sh(["coqchk", "-silent", "-o", "-Q", os.path.join(vlib.COQ, "theories"), "JP", "JP.Props.%s" % P.id], timeout=1800)
        m = re.search(r"\* Axioms:\s*(.*?)\n\s*\n", out, re.S)
        coqchk = {"exit": rc, "axioms": (m.group(1).strip() if m else "?")}
        if rc != 0 or coqchk["axioms"] != "<none>":
            broken.append("coqchk: exit %s axioms %s" % (rc, coqchk["axioms"][:200]))
    hits = vlib.forbidden_scan()
    if hits:
        broken.append("forbidden-declarations:" + ";".join(hits[:5]))
    n_obl = len(obligations) + 2     # + forbidden scan + translator tables
    n_dis = sum(1 for o in obligations if o["status"] == "discharged") + (0 if hits else 1) + (0 if tr_broken else 1)

    # 3. builds
    try:
        driver = vlib.build_driver()
    except RuntimeError as ex:
        # the executable model (which reads the tables generated from /repo) no longer builds: nothing can be evaluated
        rp = vlib.write_replay(P.id, "build", {"property": P.id, "broken_obligation": broken + ["model build (extraction of the executable model over the generated tables)"],
                                               "log": str(ex)[-3000:]})
        print("VIOLATION property=%s replay=%s no-failing-input-found" % (P.id, rp))
        vlib.write_evidence(P.id, tier, seed, {"obligations": n_obl + 1, "discharged": n_dis, "checker_cmd": "make -C coq theories/Props/%s.vo" % P.id,
                            "trusted_base": TRUSTED_BASE, "explanation": "the executable model does not build over the tables generated from /repo (one more obligation, not discharged)",
                            "broken_obligations": broken + ["model build"], "evaluations": 0, "distinct_nontrivial": 0, "samples": []}, P.assumptions, time.time() - t0, 1)
        return 1
    harness, hout = vlib.build_harness(features=P.features)
    if harness is None:
        rp = vlib.write_replay(P.id, "build", {"property": P.id, "broken_obligation": "harness does not build against /repo", "log": hout[-3000:]})
        print("VIOLATION property=%s replay=%s no-failing-input-found" % (P.id, rp))
        vlib.write_evidence(P.id, tier, seed, {"obligations": n_obl + 1, "discharged": n_dis, "checker_cmd": "make -C coq theories/Props/%s.vo" % P.id,
                            "trusted_base": TRUSTED_BASE, "explanation": "the harness does not build against /repo (one more obligation, not discharged)",
                            "broken_obligations": ["harness build"], "evaluations": 0, "distinct_nontrivial": 0, "samples": []}, P.assumptions, time.time() - t0, 1)
        return 1
    bins = [("debug", harness)]
    if P.release_too:
        h2, _ = vlib.build_harness(features=P.features, release=True)
        if h2:
            bins.append(("release", h2))

    # 4. cases
    for old_replay in glob.glob(os.path.join(vlib.ROOT, 'evidence', 'replays', P.id + '-*.json')):
        os.remove(old_replay)     # replays of earlier runs say nothing about this one
    rng = random.Random(seed)
    if replay:
        rj = json.load(open(replay))
        lines = [rj["case"]] if "case" in rj else []
    else:
        lines = P.corpus() + [k["witness"] for k in known if k.get("property") == P.id and "witness" in k] + P.cases(rng, tier)
    seen = set()
    ulines = []
    for l in lines:
        if l not in seen:
            seen.add(l)
            ulines.append(l)
    lines = ulines
    mobs = vlib.run_exe(driver, lines, timeout=900, unlimited_stack=True)
    slines = [P.spec_line(l) for l in lines]
    sidx = [i for i, l in enumerate(slines) if l]
    sres = vlib.run_exe(driver, [slines[i] for i in sidx], timeout=900, unlimited_stack=True)
    sobs = [None] * len(lines)
    for i, o in zip(sidx, sres):
        sobs[i] = o
    stats = {"ok": 0, "unmodelled": 0, "known": 0, "violation": 0, "modelbroken": 0}
    first_modelbroken = None
    known_hit = {}
    nontrivial = set()
    viol_cases = []
    for bname, exe in bins:
        iobs = P.run_impl(exe, lines) if hasattr(P, 'run_impl') else vlib.run_exe(exe, lines, timeout=P.impl_timeout)
        for c, m, i, so in zip(lines, mobs, iobs, sobs):
            st, detail = judge(P, c, m, i, known, so)
            stats[st] += 1
            if st == "known":
                known_hit.setdefault(detail, (c, i))
            elif st == "violation":
                viol_cases.append((bname, exe, c, m, i, detail))
            elif st == "modelbroken" and first_modelbroken is None:
                first_modelbroken = (c, detail)
            if st == "ok" and P.nontrivial(c, m):
                nontrivial.add(c)

    if stats["modelbroken"]:
        broken.append("correspondence: the model (tables read from the source) disagrees with an implementation that agrees with the specification "
                      "oracle on %d cases; first: %s (%s)" % (stats["modelbroken"], first_modelbroken[0][:200], first_modelbroken[1]))

    # 5. extraction cross-check inside coqc (a sample of the very same lines)
    xs = rng.sample(lines, min(len(lines), 60 if tier == "quick" else 300)) if lines else []
    xs = [l for l in xs if len(l) < 4000]
    if xs:
        cobs, cout = vlib.coq_eval_lines(xs)
        if cobs is None:
            broken.append("coq-eval: vm_compute of run_line failed")
            notes.append(cout[-1500:])
        else:
            idx = {l: o for l, o in zip(lines, mobs)}
            bad = [(l, o, idx[l]) for l, o in zip(xs, cobs) if o != idx[l]]
            if bad:
                broken.append("extraction-cross-check: vm_compute and extracted OCaml differ on %d lines" % len(bad))
                notes.append(repr(bad[:3]))

    # 6. property-specific extras
    ctx = {"driver": driver, "bins": bins, "rng": rng, "tier": tier, "known": known, "lines": lines, "mobs": mobs}
    for kind, info in P.extra(ctx):
        if kind == "violation":
            viol_cases.append(("debug", harness, info.get("case", ""), info.get("expected", ""), info.get("observed", ""), info.get("detail", "")))
        elif kind == "broken":
            broken.append(info["name"])
        elif kind == "note":
            notes.append(info["text"])
        elif kind == "count":
            stats[info["name"]] = stats.get(info["name"], 0) + info["n"]
            if info["name"].startswith("known:"):
                known_hit.setdefault(info["name"][6:], ("", ""))

    # 7. verdict
    reported = 0
    seen_detail = set()
    for bname, exe, c, m, i, detail in viol_cases[:50]:
        key = (canon(m), canon(i)[:40], c.split(" ")[0])
        if key in seen_detail and reported >= 3:
            continue
        seen_detail.add(key)
        small = c
        if c and not replay:
            def still(cand, exe=exe):
                mo = vlib.run_exe(driver, [cand], timeout=60, unlimited_stack=True)[0]
                io = (P.run_impl(exe, [cand]) if hasattr(P, 'run_impl') else vlib.run_exe(exe, [cand], timeout=60))[0]
                sl = P.spec_line(cand)
                so = vlib.run_exe(driver, [sl], timeout=60, unlimited_stack=True)[0] if sl else None
                return judge(P, cand, mo, io, known, so)[0] == "violation"
            try:
                small = shrink(P, c, still)
            except Exception as ex:   # shrinking is best effort
                notes.append("shrink failed: %r" % ex)
        if small != c:
            m2 = vlib.run_exe(driver, [small], timeout=60, unlimited_stack=True)[0]
            i2 = (P.run_impl(exe, [small]) if hasattr(P, 'run_impl') else vlib.run_exe(exe, [small], timeout=60))[0]
        else:
            m2, i2 = m, i
        rp = vlib.write_replay(P.id, "%d" % reported, {
            "property": P.id, "tier": tier, "seed": seed, "build": bname, "case": small, "shrunk_from": c if small != c else None,
            "expected_by_spec": m2, "observed": i2, "detail": detail, "broken_obligation": broken or ["correspondence:%s" % c.split(" ")[0]],
            "replay_cmd": "./check %s --replay <this file>" % P.id})
        print("VIOLATION property=%s replay=%s" % (P.id, rp))
        reported += 1
        if reported >= 5:
            break
    if broken and not reported:
        rp = vlib.write_replay(P.id, "obligation", {"property": P.id, "tier": tier, "seed": seed, "broken_obligation": broken, "notes": notes[-5:],
                                                    "cases_searched": len(lines)})
        print("VIOLATION property=%s replay=%s no-failing-input-found" % (P.id, rp))
        reported += 1
    for k in known:
        if k.get("property") == P.id and str(k.get("status", "")).startswith("open") and k["id"] in known_hit:
            print("KNOWN-FINDING: property=%s %s" % (P.id, k.get("what", k["id"])))

    samples = []
    for c, m in list(zip(lines, mobs))[:2000]:
        if c in nontrivial:
            samples.append({"case": c[:400], "observation": m[:400]})
        if len(samples) >= 5:
            break
    if not samples and lines:
        samples = [{"case": lines[0][:400], "observation": mobs[0][:400]}]
    kinds = {}
    for c in lines:
        kinds[c.split(" ")[0]] = kinds.get(c.split(" ")[0], 0) + 1
    obs_kinds = {}
    for m in mobs:
        k = " ".join(m.split(" ")[:(2 if m.startswith("ERR parse") else 3)]) if m.startswith("ERR") else m.split(" ")[0]
        obs_kinds[k] = obs_kinds.get(k, 0) + 1
    coverage = {
        "obligations": n_obl, "discharged": n_dis,
        "checker_cmd": "make -C coq theories/Props/%s.vo (full .vo build) + Print Assumptions allow-list + declaration scan" % P.id,
        "trusted_base": TRUSTED_BASE,
        "theorems": [{"name": o["name"], "status": o["status"], "axioms": o["axioms"]} for o in obligations],
        "evaluations": len(lines) * len(bins), "distinct_nontrivial": len(nontrivial),
        "rule": P.rule, "samples": samples, "case_kinds": kinds, "model_observation_kinds": obs_kinds,
        "judgements": stats, "spec_oracle_lines": len(sidx), "coqchk": coqchk, "builds": [b for b, _ in bins], "coq_cross_checked_lines": len(xs),
        "traces_validated_against_impl": len(lines), "disagreements_checked": len(viol_cases),
        "known_findings_reproduced": sorted(known_hit), "broken_obligations": broken, "notes": notes[-5:],
    }
    vlib.write_evidence(P.id, tier, seed, coverage, P.assumptions, time.time() - t0, reported)
    if reported:
        return 1
    print("OK property=%s obligations=%d discharged=%d cases=%d" % (P.id, n_obl, n_dis, len(lines)))
    return 0


def load_prop(pid):
    mod = importlib.import_module("props." + pid)
    return mod.P()
