#!/usr/bin/env python3
"""Regenerates MANIFEST.json from the table below (keeps it valid at all times)."""
import json
import os

ROOT = os.path.dirname(os.path.dirname(os.path.abspath(__file__)))
ids = [json.loads(l)["id"] for l in open(os.path.join(ROOT, "properties.jsonl"))]

BASE_NOTE = ("Trusted: Coq 8.16.1 kernel + vm_compute (no native_compute); Print Assumptions allow-list (closed under the global "
             "context unless stated); ExtrOcamlBasic extraction + ocaml/driver.ml; tools/translate.py; the Rust harness and generators; "
             "rustc/cargo. The model is hand-written and tied to /repo by the correspondence run of every check.")

CLAIMS = {
    "C01": dict(
        text=("Theorems (Props/C01.v): for every core tree (any nesting), document, registry and incoming context offset the model of "
              "interpreter.rs returns exactly the value of an independent denotational semantics (Spec/Semantics.v: comprehension style, "
              "closed-form slices), by induction over unbounded trees; plus the clauses the property names (null for absent/wrongly-typed "
              "subjects, nulls dropped, one-level flatten, short-circuit, truthiness with 0 truthy, ascending key order, last duplicate wins). "
              "Correspondence: random core trees x random documents through Expression::search on hand-built ASTs, compliance expressions x "
              "documents end to end; every evalast case is also compared with the extracted specification (spec oracle)."),
        ref="5 (C01), 4.2", note=BASE_NOTE + " Unmodelled: slicing an array of 2^31 or more elements. Comparison nodes delegate to C10's model.",
        technique="Coq proof (interpreter model = denotational semantics) + model/spec/implementation correspondence"),
    "C07": dict(
        text=("Theorems (Props/C07.v, all inputs, no bound on array length below 2^31 or on the 32-bit triples): the model of "
              "variable.rs::slice/adjust_slice_endpoint and of the Index arm equals the closed-form Python/JMESPath slice rule; "
              "never traps or runs out of fuel; the closed form is equivalent to the membership characterisation. "
              "Correspondence: exhaustive small-scope + random i32 triples, model (extracted OCaml, cross-checked by vm_compute) vs "
              "Variable::slice/get_index/get_negative_index in debug and release builds, plus Python's own list slicing as a second oracle."),
        ref="5 (C07), 4.3", note=BASE_NOTE + " Assumes array length < 2^31.",
        technique="Coq proof (model = closed-form slice spec) + model/implementation correspondence"),
}

checks = []
for i in ids:
    if i in CLAIMS:
        c = CLAIMS[i]
        checks.append({
            "property_id": i, "quick_cmd": "./check %s --tier quick" % i, "thorough_cmd": "./check %s --tier thorough" % i,
            "evidence_file": "/verif/evidence/%s.json" % i, "replay_cmd_template": "./check %s --replay {path}" % i,
            "engine": "coq-model-correspondence",
            "level_claimed": {"category": "proof", "text": c["text"], "design_ref": c["ref"]},
            "level_note": c["note"], "technique": c["technique"]})
m = {
    "version": 1, "setup_cmd": "./check --setup",
    "hooks": {"guard": "jmespath_verif", "enable": "RUSTFLAGS='--cfg jmespath_verif' (no check needs a hook so far; all surfaces are public API)",
              "baseline_off_cmd": "cd /repo/jmespath && cargo test --workspace --no-fail-fast --offline", "source_commits": [], "add_only": True},
    "engines": [{"name": "coq-model-correspondence", "path": "/verif/check", "serves_properties": [c["property_id"] for c in checks],
                 "kind_free_text": "Coq 8.16 proofs about an executable Gallina model + differential run of the extracted model against the Rust crate"}],
    "checks": checks,
    "notes": "Build in progress; DESIGN.md section 7 gives the order. Genuine defects repaired so far are listed in known_findings.json.",
    "not_applicable": [{"property_id": i, "reason": "check not built yet (work in progress, DESIGN.md section 7); the technique applies"} for i in ids if i not in CLAIMS],
}
json.dump(m, open(os.path.join(ROOT, "MANIFEST.json"), "w"), indent=1)
print("claimed:", [c["property_id"] for c in checks])
