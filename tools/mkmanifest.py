#!/usr/bin/env python3
"""Regenerates MANIFEST.json from the table below (keeps it valid at all times)."""
import json
import os

ROOT = os.path.dirname(os.path.dirname(os.path.abspath(__file__)))
ids = [json.loads(l)["id"] for l in open(os.path.join(ROOT, "properties.jsonl"))]

BASE_NOTE = ("Trusted: Coq 8.16.1 kernel + vm_compute (no native_compute); Print Assumptions allow-list (closed under the global "
             "context unless stated); ExtrOcamlBasic extraction + ocaml/driver.ml; tools/translate.py; the Rust harness and generators; "
             "rustc/cargo. The model is hand-written and tied to /repo by the correspondence run of every check.")

def claim(text, ref, note_extra="", technique="Coq proof about the executable model + model/implementation correspondence"):
    return dict(text=text, ref=ref, note=BASE_NOTE + (" " + note_extra if note_extra else ""), technique=technique)


CLAIMS = {
    "C01": claim("Theorems (Props/C01.v): for every core tree (any nesting), document, registry and incoming context offset the model of "
                 "interpreter.rs returns exactly the value of an independent denotational semantics (Spec/Semantics.v), by induction over "
                 "unbounded trees; plus the clauses the property names (null for absent/wrongly-typed subjects, nulls dropped, one-level flatten, "
                 "short-circuit, truthiness with 0 truthy, ascending key order, last duplicate wins). Correspondence: random core trees x documents "
                 "on hand-built ASTs, compliance expressions and random sentences x documents end to end; every evalast case also against the extracted "
                 "specification, every search case also against the reference parser (documented binding powers) followed by the evaluator.",
                 "5 (C01), 4.2", "Unmodelled: slicing an array of 2^31 or more elements. Comparison nodes delegate to C10's model.",
                 "Coq proof (interpreter model = denotational semantics) + model/spec/implementation correspondence"),
    "C02": claim("Theorems (Props/C02.v): the sorting routine behind sort/sort_by is a permutation, ascending on total preorders and stable; "
                 "sort_by evaluates its expression once per element in order and returns the elements in a stable ascending order of those keys; max_by/min_by return the "
                 "first element whose key no other key exceeds/undercuts; integers are never NaN as doubles; merge is right-biased; length/reverse on code points; keys/values pairwise; to_number is "
                 "number-or-null; avg [] = null; map keeps length and evaluates once per element in order; Ord for Variable is a total preorder on "
                 "arrays of numbers (no NaN) and of strings, so sort is ascending and stable there and max/min return an extremal member; "
                 "starts_with/ends_with/contains = prefix/suffix/substring (member up to ==); join = members separated by the glue; not_null = first "
                 "non-null argument; to_array, type, to_string on strings. The numeric functions (abs, ceil, floor, sum, avg) and to_string's "
                 "float printing are decided by correspondence of the 26 modelled bodies with "
                 "Function::evaluate on seeded well-typed tuples (arrays > 20 elements with duplicate keys, several Unicode planes).",
                 "5 (C02)", "Partial: IEEE arithmetic facts of abs/ceil/floor/sum/avg and the float-printing model (zmij) are validated, not proved."),
    "C03": claim("Theorems (Props/C03.v): the generated binding-power table has the documented order; soundness: whatever the reference parser "
                 "accepts lexes to the flattening of a well-formed, binding-power-respecting, disambiguated syntax tree of the grammar (Spec/Grammar, Prec, Disamb) "
                 "and the returned tree is its abstract tree; the code's parser is sound for the grammar extended by the four recorded deviation forms; "
                 "completeness (any table with the documented order): every such tree is accepted with its abstract tree, by the reference parser always, by "
                 "the code outside the one recorded deviation class; exactness: the reference parser accepts iff the expression lexes to such a tree; the "
                 "disambiguated grammar is unambiguous; the code builds the reference parser's tree on every expression of the language outside the deviation "
                 "class; lexer soundness: the token list is a segmentation of the expression into lexemes that spell their tokens. Correspondence: parse trees and error positions of jmespath::parse vs the model on grammar-directed "
                 "sentences, one-token and one-character near misses, token soup, lexical edge cases; model vs reference parser on the same stream.",
                 "5 (C03), 2.5, 4.1", "Partial: the converse agreement (what the code accepts inside the grammar the reference parser accepts), re-association of arbitrary derivations and lexer completeness are not theorems; rejection by the code is tied to the reference parser by correspondence."),
    "C04": claim("Theorems (Props/C04.v): the binding-power table extracted from lexer.rs on this run satisfies the documented order and the "
                 "projection-stop threshold (any change of relative order breaks this obligation; an order-preserving renumbering does not); "
                 "Pratt invariant of the parser model: an operand parsed at binding power rbp is never followed by an operator binding tighter; "
                 "an accepted expression is one complete operand followed by the end of the input; the returned tree respects the binding powers and (reference "
                 "parser) extends every operand and projection maximally; the rules dictate exactly one tree; the code builds the dictated tree outside the "
                 "recorded deviation class; only the order of the binding powers matters. Correspondence: every ordered pair and sampled "
                 "triples of infix/prefix/postfix operators around atomic operands, all triples and sampled 4-5-chains of postfix forms, through parse (trees) "
                 "and search (results), model vs implementation and model vs reference parser.", "5 (C04), 4.1.1", "Partial as C03."),
    "C05": claim("Theorems (Props/C05.v): slices, negative indexes and signature validation return for all inputs (no overflow, no out-of-bounds "
                 "index, no loop); evaluation of core trees returns within fuel linear in the tree height for every document; compile never traps and "
                 "never exhausts its fuel (JSON reader, lexer, all 17 parser functions, any table), so compile returns an expression or a parse error; "
                 "search never traps (all nodes, all 26 builtins behind guarded signatures). Correspondence: "
                 "hostile inputs through compile+search in child processes with a wall-clock limit, debug and release builds.",
                 "5 (C05)", "Partial: stack exhaustion (deep nesting) and the self-applied expression reference are recorded known findings; lexer/"
                 "termination of search is proved for core trees only."),
    "C06": claim("Theorems (Props/C06.v): the signature table extracted from functions.rs/runtime.rs on this run means the specification's table "
                 "(sound type-equivalence check); is_valid = specified type membership; validate = declarative decision (arity first, first "
                 "ill-typed position); every builtin validates first and afterwards never reports a signature error of its own; end to end: for every "
                 "entry of the generated registration list the check of a call equals the verdict read from the specification's table alone; the result of "
                 "an accepted call has the declared result type (all 26 builtins). "
                 "Correspondence: decision table over 26 builtins x arities x 22 type classes, judged against that verdict (specfn).", "5 (C06)", "Known finding: the code's `any` admits expression references."),
    "C07": claim("Theorems (Props/C07.v, all inputs): the model of variable.rs::slice/adjust_slice_endpoint and of the Index arm equals the "
                 "closed-form Python/JMESPath slice rule; never traps or runs out of fuel; closed form = membership characterisation. "
                 "Correspondence: exhaustive small scope + random i32 triples on Variable::slice, every spelling of the bracket through compile + search, "
                 "debug and release, plus Python's own list slicing as a second oracle.",
                 "5 (C07), 4.3", "Assumes array length < 2^31.", "Coq proof (model = closed-form slice spec) + model/implementation correspondence"),
    "C08": claim("Theorems (Props/C08.v): identity query returns the document; objects keep key order and the last duplicate; a library value "
                 "survives the serializer unchanged. Correspondence with an independent Python oracle computed from the JSON text: exact integers, "
                 "exact doubles in the 15-digit/+-22 class, <= 2 ulp otherwise, strings, order, duplicates, re-parse equal, Value round trips.",
                 "5 (C08)", "Partial: serde_json's number reader and zmij's printer are third-party code, modelled exactly and validated, not proved."),
    "C09": claim("Theorems (Props/C09.v): every spellable raw string, every JSON spelling of a name as quoted identifier and string literal, every "
                 "float-free JSON value as backtick literal evaluate to themselves; unquoted identifiers lex to their name; an unterminated quoted form is "
                 "never closed; lexer soundness for every expression: each token stands at the byte offset of a lexeme that spells it (raw strings with only the "
                 "quote unescaped, backtick literals as the JSON value of their text with only the backtick unescaped, quoted identifiers as the string their "
                 "JSON spelling denotes), and the token list segments the expression. Correspondence with an independent expectation "
                 "computed in Python (raw-string, backtick-literal and quoted-identifier round trips over delimiters, backslashes, controls and astral "
                 "characters; exhaustive delimiter/backslash juxtapositions up to length 4/6).",
                 "5 (C09)", "Partial: literals holding floating-point numerals (text to double) are decided by correspondence."),
    "C10": claim("Theorems (Props/C10.v): == is structural (numbers by tolerant double equality, arrays element-wise, objects by keys and members, "
                 "type-gated), reflexive, symmetric (incl. IEEE lemmas on SpecFloat); != is its negation; ordering is boolean iff both numbers, is the "
                 "exact IEEE order; trichotomy and <= decomposition for well-separated numbers; every 64-bit integer converts to a finite double. "
                 "Correspondence (Variable::compare and the operators through compile + search, incl. one stored value on both sides) + the laws evaluated on the implementation.",
                 "5 (C10), 4.4"),
    "C11": claim("Theorems (Props/C11.v): for all trees (function calls included), registries, fuel and offsets: pipe/sub-expression composition, "
                 "projections = filter non-null of the per-element results in order, filter = per-element predicate, multi-select = tuple/record of "
                 "member results, !/&&/|| truth tables. Metamorphic check of the same laws on the implementation + correspondence.", "5 (C11)"),
    "C12": claim("Theorems (Props/C12.v): line/column = zero-based line and character column of any character-boundary offset; arity/type/"
                 "unknown-function errors are located at the call's parenthesis, invalid-slice inside the slice; a successful evaluation restores the "
                 "error cursor; every failure of compile is a parse error whose offset is the byte length of a prefix of the expression (so it lies on a character "
                 "boundary and its line/column are those of that offset) and every failure of search a runtime error; Display's location block puts "
                 "the caret under the character at the reported offset (model of errors.rs Display). Correspondence on class, kind, offset, line, "
                 "column, payload of failing expressions and (expression, document) pairs; Display's block vs the model on arbitrary "
                 "(expression, line, column); header line and reason prefix re-rendered independently.",
                 "5 (C12)", "Partial: which token a parse error points at and the reason texts are decided by correspondence."),
    "C13": claim("Theorems (Props/C13.v) over the history model: compile deterministic; a search observes only its handle's text, its runtime's "
                 "registry and its document; searches leave no trace; clones and re-used expressions behave like fresh ones. Correspondence on seeded "
                 "histories + the purity law evaluated on the implementation + input value unchanged.", "5 (C13)"),
    "C14": claim("Theorems (Props/C14.v): the library's Serializer and serde_json's Value serializer (both modelled from source) agree on every "
                 "string-keyed value of serde's data model; non-finite floats -> null; the four enum shapes; a library value round-trips. Decoding "
                 "(Decode.v: impl Deserializer for Variable driven by serde's visitors over a universe of type descriptions): a typed value survives "
                 "Serializer + Deserializer for every type description and every value the JSON image can carry, by induction over nested descriptions; "
                 "integer targets are range-checked; the limits of the JSON image as theorems. Correspondence: the decoder model vs the library vs "
                 "serde_json on 39 target types x type-directed fitting and near-miss values (decoded values observed structurally), 43 types vs serde_json.",
                 "5 (C14)", "Partial: that the decoder equals serde_json's on every input is by correspondence (both are third-party visitors)."),
    "C15": claim("Theorems (Props/C15.v): lookup after any register/deregister/register-builtins history = latest live binding (custom functions "
                 "shadow builtins, fresh runtime empty, the 26 builtin names); call protocol (arguments left to right, exprefs unevaluated, lookup after "
                 "arguments, unknown-function at the call); custom functions receive the evaluated arguments and are validated first. "
                 "Correspondence on seeded registry histories with echoing closures.", "5 (C15)"),
    "C16": claim("Theorems (Props/C16.v): source facts re-extracted on this run (Arc under sync, Function: Send+Sync, lazy_static default runtime, "
                 "no interior mutability/unsafe/static mut/stray Rc); in the interleaving model every schedule gives each thread the sequential "
                 "results and initialises the default runtime once. The sync build instantiates Send+Sync; barrier-released threads compile and "
                 "search shared expressions/values incl. the first-use race.", "5 (C16)",
                 "Partial: memory-model data races, Arc and Once internals are outside the model."),
    "C17": claim("Theorems (Props/C17.v): the specialised conversions agree with the generic serde path on every JSON-representable input, hence searching a typed "
                 "input gives the same outcome with and without `specialized` for every expression text; 128-bit integers are refused on every route. The "
                 "same case file runs through four builds (default, sync, nightly specialized, both) and is compared pairwise and with the model.",
                 "5 (C17)", "Partial: feature invisibility of sync is decided by running the builds. Known finding: non-finite floats differ."),
    "C18": claim("Theorems (Props/C18.v) about the jp model: success prints the pretty JSON (raw string with --unquoted) + newline and exits 0; "
                 "--unquoted only affects strings; --ast reads no input; every failure exits 1 with empty stdout. The real binary is built from "
                 "/repo/jmespath-cli on every run and compared with the model and with the library's own tree dump.", "5 (C18)",
                 "Partial: clap's argument parsing, EPIPE and exotic file-system errors are not modelled."),
}

checks = []
for i in ids:
    if i in CLAIMS:
        c = CLAIMS[i]
        checks.append({
            "property_id": i, "quick_cmd": "./check %s --tier quick" % i, "thorough_cmd": "./check %s --tier thorough" % i,
            "evidence_file": "/verif/evidence/%s.json" % i, "replay_cmd_template": "./check %s --replay {path}" % i,
            "engine": "coq-model-correspondence",
            "level_claimed": {"category": "proof", "text": c["text"], "design_ref": c["ref"]},
            "level_note": c["note"], "technique": c["technique"]})
m = {
    "version": 1, "setup_cmd": "./check --setup",
    "hooks": {"guard": "jmespath_verif", "enable": "RUSTFLAGS='--cfg jmespath_verif' (no check needs a hook so far; all surfaces are public API)",
              "baseline_off_cmd": "cd /repo/jmespath && cargo test --workspace --no-fail-fast --offline", "source_commits": [], "add_only": True},
    "engines": [{"name": "coq-model-correspondence", "path": "/verif/check", "serves_properties": [c["property_id"] for c in checks],
                 "kind_free_text": "Coq 8.16 proofs about an executable Gallina model + differential run of the extracted model against the Rust crate"}],
    "checks": checks,
    "notes": "Build in progress; DESIGN.md section 7 gives the order. Genuine defects repaired so far are listed in known_findings.json.",
    "not_applicable": [{"property_id": i, "reason": "check not built yet (work in progress, DESIGN.md section 7); the technique applies"} for i in ids if i not in CLAIMS],
}
json.dump(m, open(os.path.join(ROOT, "MANIFEST.json"), "w"), indent=1)
print("claimed:", [c["property_id"] for c in checks])
