#!/usr/bin/env python3
"""seed_eval.py <worktree> <sN> <property> [checks...]
Confirms a seeded change in its scratch worktree (suite green, demo fails with / passes without), then applies it to /repo,
runs the given checks (default: the property's own), reverts /repo, and stores the seed under /verif/seeded/<property>-<sN>/."""
import json
import os
import shutil
import subprocess
import sys

ROOT = os.path.dirname(os.path.dirname(os.path.abspath(__file__)))


def sh(cmd, cwd=None, timeout=3000):
    p = subprocess.run(cmd, shell=True, cwd=cwd, stdout=subprocess.PIPE, stderr=subprocess.STDOUT, text=True, timeout=timeout,
                       env=dict(os.environ, CARGO_NET_OFFLINE="true"))
    return p.returncode, p.stdout


def main():
    wt, sn, pid = sys.argv[1:4]
    checks = [pid] + [c for c in sys.argv[4:] if c != pid]
    sd = os.path.join(wt, "_seed", sn)
    patch = os.path.join(sd, "patch.diff")
    meta = json.load(open(os.path.join(sd, "meta.json")))
    ran = []
    jm = os.path.join(wt, "jmespath")
    demo_dst = os.path.join(jm, "tests", "seed_demo.rs")
    sh("git checkout -- . && rm -f jmespath/tests/seed_demo.rs", cwd=wt)
    demo_sh = os.path.join(sd, "demo.sh")
    if os.path.exists(demo_sh) and not os.environ.get("SKIP_CONFIRM"):
        cli = os.path.join(wt, "jmespath-cli")
        sh("rm -f Cargo.lock", cwd=cli)
        rc, out = sh("git apply %s" % patch, cwd=wt)
        assert rc == 0, out
        rc, out = sh("cargo build --offline 2>&1 | tail -2", cwd=cli)
        rc1, out1 = sh("bash %s %s/target/debug/jp 2>&1" % (demo_sh, cli), cwd=cli)
        ran.append({"cmd": "demo.sh with change", "rc": rc1, "result": out1.strip().splitlines()[-5:]})
        sh("git checkout -- jmespath-cli/src", cwd=wt)
        rc, out = sh("cargo build --offline 2>&1 | tail -2", cwd=cli)
        rc2, out2 = sh("bash %s %s/target/debug/jp 2>&1" % (demo_sh, cli), cwd=cli)
        ran.append({"cmd": "demo.sh clean", "rc": rc2, "result": out2.strip().splitlines()[-5:]})
        sh("git checkout -- .", cwd=wt)
        print("confirmed: demo_fails_with=%s demo_passes_without=%s" % (rc1 != 0, rc2 == 0))
        if not (rc1 != 0 and rc2 == 0):
            print("NOT KEPT")
            return 1
    elif not os.environ.get("SKIP_CONFIRM"):
        demo_cmd = meta.get("demo_cmd", "cargo test --offline --test seed_demo")
        feats = meta.get("demo_features")
        if feats and "demo_cmd" not in meta:
            feats = feats if isinstance(feats, str) else ",".join(feats)
            demo_cmd = "cargo %stest --offline --features %s --test seed_demo" % ("+nightly " if "specialized" in feats else "", feats)
        if "CARGO_NET_OFFLINE" in demo_cmd:
            demo_cmd = demo_cmd.split("CARGO_NET_OFFLINE=true")[-1].strip()
        if demo_cmd.startswith("cd "):
            demo_cmd = demo_cmd.split("&&", 1)[1].strip()
        rc, out = sh("git apply %s" % patch, cwd=wt)
        assert rc == 0, out
        rc, out = sh("cargo test --offline 2>&1 | grep -E '^test result|FAILED|panicked'", cwd=jm)
        suite_green = "FAILED" not in out and "panicked" not in out and out.count("test result: ok") >= 3
        ran.append({"cmd": "cargo test --offline (with change)", "result": out.strip().splitlines()})
        shutil.copy(os.path.join(sd, "demo.rs"), demo_dst)
        rc, out = sh(demo_cmd + " 2>&1 | grep -E '^test result|^test .*FAILED|^error' | head -8", cwd=jm)
        # a demonstration may also fail by no longer compiling (a lost auto trait shows as error[E0277])
        demo_fails_with = "FAILED" in out or ("error" in out and "test result: ok" not in out)
        ran.append({"cmd": demo_cmd + " (with change)", "result": out.strip().splitlines()})
        sh("git checkout -- .", cwd=wt)
        rc, out = sh(demo_cmd + " 2>&1 | grep -E '^test result|^test .*FAILED|^error' | head -8", cwd=jm)
        demo_passes_without = "FAILED" not in out and "test result: ok" in out
        ran.append({"cmd": demo_cmd + " (clean)", "result": out.strip().splitlines()})
        os.remove(demo_dst)
        print("confirmed: suite_green=%s demo_fails_with=%s demo_passes_without=%s" % (suite_green, demo_fails_with, demo_passes_without))
        if not (suite_green and demo_fails_with and demo_passes_without):
            print("NOT KEPT")
            return 1
    # run checks against /repo with the change
    rc, out = sh("git -C /repo status --short")
    assert out.strip() == "", "repo not clean: " + out
    rc, out = sh("git -C /repo apply %s" % patch)
    assert rc == 0, out
    results = {}
    try:
        for c in checks:
            rc, out = sh("./check %s --tier quick" % c, cwd=ROOT)
            lines = [l for l in out.splitlines() if l.startswith(("VIOLATION", "OK ", "KNOWN-FINDING"))]
            detail = None
            for l in lines:
                if l.startswith("VIOLATION") and "replay=" in l:
                    rp = l.split("replay=")[1].split()[0]
                    try:
                        r = json.load(open(rp))
                        detail = {k: r.get(k) for k in ("case", "expected_by_spec", "observed", "detail", "broken_obligation")}
                    except Exception:
                        pass
                    break
            results[c] = {"exit": rc, "lines": lines[:6], "first_replay": detail}
            print(c, "exit", rc, lines[:3])
    finally:
        sh("git -C /repo checkout -- .")
    rc, out = sh("git -C /repo status --short")
    assert out.strip() == "", out
    dst = os.path.join(ROOT, "seeded", "%s-%s%s" % (pid, os.environ.get("SEED_TAG", ""), sn))
    os.makedirs(dst, exist_ok=True)
    shutil.copy(patch, os.path.join(dst, "patch.diff"))
    for demo in ("demo.rs", "demo.sh"):
        if os.path.exists(os.path.join(sd, demo)):
            shutil.copy(os.path.join(sd, demo), os.path.join(dst, demo))
    meta["confirmed_by"] = ran
    meta["checks_against_repo_with_change"] = results
    meta["caught_by"] = [c for c, r in results.items() if r["exit"] == 1]
    json.dump(meta, open(os.path.join(dst, "meta.json"), "w"), indent=1)
    print("caught_by:", meta["caught_by"])
    return 0


if __name__ == "__main__":
    sys.exit(main())
