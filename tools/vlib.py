"""Shared machinery of ./check: builds (Coq, OCaml driver, Rust harness), running
the model and the implementation on case lines, obligations bookkeeping,
known findings, evidence files."""
import concurrent.futures as cf
import hashlib
import json
import os
import re
import subprocess
import sys
import time

ROOT = os.path.dirname(os.path.dirname(os.path.abspath(__file__)))
REPO = "/repo"
CACHE = os.path.join(ROOT, ".cache")
COQ = os.path.join(ROOT, "coq")
LOGS = os.path.join(CACHE, "logs")
NPROC = 16

ALLOWED_AXIOMS = {
    # standard-library axioms that Flocq's real-number layer brings in (DESIGN.md section 6)
    "ClassicalDedekindReals.sig_not_dec",
    "ClassicalDedekindReals.sig_forall_dec",
    "FunctionalExtensionality.functional_extensionality_dep",
    "Classical_Prop.classic",
}

FORBIDDEN = re.compile(
    r"\b(Admitted|admit|Axiom|Axioms|Parameter|Parameters|Conjecture|Conjectures|Hypothesis|Hypotheses|Variable|Variables"
    r"|Admit Obligations|bypass_check|Unset Guard Checking|Unset Positivity Checking|Unset Universe Checking)\b"
    r"|type-in-type|impredicative-set"
)


def log(*a):
    print(*a, file=sys.stderr, flush=True)


def ensure_dirs():
    for d in (CACHE, LOGS, os.path.join(ROOT, "evidence"), os.path.join(ROOT, "evidence", "replays")):
        os.makedirs(d, exist_ok=True)


def sh(cmd, timeout=1200, cwd=None, env=None, inp=None):
    e = dict(os.environ)
    e.update({"CARGO_NET_OFFLINE": "true", "CARGO_TARGET_DIR": os.path.join(CACHE, "target")})
    if env:
        e.update(env)
    try:
        p = subprocess.run(cmd, shell=isinstance(cmd, str), cwd=cwd, env=e, input=inp, timeout=timeout,
                           stdout=subprocess.PIPE, stderr=subprocess.STDOUT, text=True)
        return p.returncode, p.stdout
    except subprocess.TimeoutExpired as ex:
        out = ex.stdout or ""
        if isinstance(out, bytes):
            out = out.decode("utf8", "replace")
        return 124, out + "\n[timeout]"


def write_if_changed(path, content):
    os.makedirs(os.path.dirname(path), exist_ok=True)
    try:
        if open(path).read() == content:
            return False
    except FileNotFoundError:
        pass
    with open(path, "w") as f:
        f.write(content)
    return True


# ----------------------------------------------------------------------------- Coq

def coq_makefile():
    mk = os.path.join(COQ, "Makefile")
    proj = os.path.join(COQ, "_CoqProject")
    if (not os.path.exists(mk)) or os.path.getmtime(mk) < os.path.getmtime(proj):
        rc, out = sh("coq_makefile -f _CoqProject -o Makefile", cwd=COQ)
        if rc != 0:
            raise RuntimeError("coq_makefile failed:\n" + out)


def coq_make(targets, timeout=3000):
    """Full .vo build of the given targets (never -vos). Returns (ok, log)."""
    coq_makefile()
    os.makedirs(os.path.join(ROOT, "ocaml", "gen"), exist_ok=True)
    rc, out = sh(["make", "-j%d" % NPROC] + list(targets), cwd=COQ, timeout=timeout)
    with open(os.path.join(LOGS, "coq_make.log"), "a") as f:
        f.write("\n==== make %s\n%s" % (" ".join(targets), out))
    return rc == 0, out


def strip_comments(text):
    """Blanks out Coq comments (nested) and string literals, keeping line structure."""
    out = []
    depth = 0
    i = 0
    n = len(text)
    instr = False
    while i < n:
        c = text[i]
        if instr:
            if c == '"':
                instr = False
            out.append("\n" if c == "\n" else " ")
            i += 1
        elif text.startswith("(*", i):
            depth += 1
            out.append("  ")
            i += 2
        elif depth > 0 and text.startswith("*)", i):
            depth -= 1
            out.append("  ")
            i += 2
        elif depth > 0:
            out.append("\n" if c == "\n" else " ")
            i += 1
        elif c == '"':
            instr = True
            out.append(" ")
            i += 1
        else:
            out.append(c)
            i += 1
    return "".join(out)


def forbidden_scan():
    """Greps the whole development for declarations of axioms, admits and checker switches.
    Section variables are allowed only in files that close every section (checked by Coq itself:
    a Variable outside a section is reported here)."""
    hits = []
    for dp, _, fs in os.walk(os.path.join(COQ, "theories")):
        for fn in fs:
            if not fn.endswith(".v"):
                continue
            p = os.path.join(dp, fn)
            depth = 0
            for i, line in enumerate(strip_comments(open(p).read()).splitlines(), 1):
                code = line
                if re.match(r"\s*Section\b", code):
                    depth += 1
                if re.match(r"\s*End\b", code) and depth > 0:
                    depth -= 1
                for m in FORBIDDEN.finditer(code):
                    w = m.group(0)
                    if w in ("Variable", "Variables", "Hypothesis", "Hypotheses") and depth > 0:
                        continue
                    hits.append("%s:%d: %s" % (os.path.relpath(p, ROOT), i, w))
    return hits


def props_check(pid):
    """Recompiles theories/Props/<pid>.v (after its dependencies) and parses the
    Print Assumptions blocks. Returns dict(ok, obligations=[...], log)."""
    rel = "theories/Props/%s.v" % pid
    src = os.path.join(COQ, rel)
    text = open(src).read()
    theorems = re.findall(r"^\s*(?:Theorem|Lemma|Corollary|Example)\s+([A-Za-z0-9_']+)", text, re.M)
    printed = re.findall(r"^\s*Print Assumptions\s+([A-Za-z0-9_'.]+)\s*\.", text, re.M)
    vo = src + "o"
    if os.path.exists(vo):
        os.remove(vo)
    ok, out = coq_make([rel + "o"])
    res = {"ok": ok, "log": out[-4000:], "obligations": []}
    # split output into blocks following the COQC line of this file
    idx = out.rfind("COQC " + rel)
    body = out[idx:] if idx >= 0 else out
    blocks = []
    cur = None
    for line in body.splitlines():
        if line.startswith("Closed under the global context"):
            blocks.append([])
            cur = None
        elif line.startswith("Axioms:"):
            cur = []
            blocks.append(cur)
        elif cur is not None:
            m = re.match(r"^([A-Za-z_][A-Za-z0-9_'.]*)\s*$|^([A-Za-z_][A-Za-z0-9_'.]*)\s*:", line)
            if m:
                cur.append(m.group(1) or m.group(2))
            elif not line.startswith(" "):
                cur = None
    failing = None
    if not ok:
        m = re.search(r'File "\./%s", line (\d+)' % re.escape(rel), out)
        if m:
            ln = int(m.group(1))
            upto = "\n".join(text.splitlines()[:ln])
            ths = re.findall(r"^\s*(?:Theorem|Lemma|Corollary|Example)\s+([A-Za-z0-9_']+)", upto, re.M)
            failing = ths[-1] if ths else "line %d" % ln
        else:
            failing = "dependency of %s (see log)" % rel
    for i, name in enumerate(theorems):
        ob = {"name": name, "status": "unchecked", "axioms": None}
        if name in printed:
            j = printed.index(name)
            if j < len(blocks):
                ax = blocks[j]
                bad = [a for a in ax if a not in ALLOWED_AXIOMS]
                ob["axioms"] = ax
                ob["status"] = "discharged" if not bad else "disallowed-axioms:" + ",".join(bad)
            else:
                ob["status"] = "not-reached"
        elif re.search(r"^\s*Example\s+%s\b" % re.escape(name), text, re.M):
            ob["status"] = "discharged" if ok else "not-reached"     # non-vacuity examples: closed by vm_compute
            ob["axioms"] = []
        else:
            ob["status"] = "no-print-assumptions"
        res["obligations"].append(ob)
    res["failing"] = failing
    return res


# ----------------------------------------------------------------------------- OCaml driver

def file_hash(*paths):
    h = hashlib.sha256()
    for p in paths:
        with open(p, "rb") as f:
            h.update(f.read())
    return h.hexdigest()


def build_driver():
    """Builds the extracted model + driver into .cache/ocaml/driver (rebuilds when the extraction changed)."""
    ok, out = coq_make(["theories/Extract.vo"])
    if not ok:
        raise RuntimeError("model does not build:\n" + out[-3000:])
    gen = os.path.join(ROOT, "ocaml", "gen")
    if not os.path.exists(os.path.join(gen, "model.ml")):
        # .vo is up to date but the extraction output was removed: force it
        os.remove(os.path.join(COQ, "theories", "Extract.vo"))
        ok, out = coq_make(["theories/Extract.vo"])
        if not ok:
            raise RuntimeError("extraction failed:\n" + out[-3000:])
    bdir = os.path.join(CACHE, "ocaml")
    os.makedirs(bdir, exist_ok=True)
    h = file_hash(os.path.join(gen, "model.ml"), os.path.join(gen, "model.mli"), os.path.join(ROOT, "ocaml", "driver.ml"))
    stamp = os.path.join(bdir, "stamp")
    exe = os.path.join(bdir, "driver")
    if os.path.exists(exe) and os.path.exists(stamp) and open(stamp).read() == h:
        return exe
    for fn in ("model.ml", "model.mli"):
        sh(["cp", os.path.join(gen, fn), bdir])
    sh(["cp", os.path.join(ROOT, "ocaml", "driver.ml"), bdir])
    rc, out = sh("ocamlfind ocamlopt -O2 -w -a -o driver model.mli model.ml driver.ml", cwd=bdir, timeout=900)
    if rc != 0:
        raise RuntimeError("driver build failed:\n" + out[-3000:])
    open(stamp, "w").write(h)
    return exe


# ----------------------------------------------------------------------------- Rust harness

def build_harness(features=(), release=False, nightly=False, rustflags=None):
    args = ["cargo"] + (["+nightly"] if nightly else []) + ["build", "--offline"]
    if release:
        args.append("--release")
    if features:
        args += ["--features", ",".join(features)]
    tdir = os.path.join(CACHE, "target" + ("-nightly" if nightly else "") + ("-" + "-".join(features) if features else ""))
    env = {"CARGO_TARGET_DIR": tdir}
    if rustflags:
        env["RUSTFLAGS"] = rustflags
    hdir = os.path.join(ROOT, "harness")
    lock = os.path.join(hdir, "Cargo.lock")
    if not os.path.exists(lock):
        sh(["cp", os.path.join(REPO, "jmespath", "Cargo.lock"), lock])
    rc, out = sh(args, cwd=hdir, env=env, timeout=1800)
    with open(os.path.join(LOGS, "cargo.log"), "a") as f:
        f.write("\n==== %s\n%s" % (" ".join(args), out))
    if rc != 0:
        return None, out
    return os.path.join(tdir, "release" if release else "debug", "h"), out


# ----------------------------------------------------------------------------- running cases

def _run_chunk(exe, lines, timeout, unlimited_stack=False):
    """Feeds lines to exe; a crash or hang is attributed to the first line without output."""
    outs = []
    pos = 0
    while pos < len(lines):
        chunk = lines[pos:]
        data = "\n".join(chunk) + "\n"
        # the child limits itself (CPU seconds, address space) so that it cannot outlive a killed parent as a runaway
        limits = "ulimit -t %d 2>/dev/null; ulimit -v 16000000 2>/dev/null; " % (int(timeout) + 120)
        if unlimited_stack:
            limits += "ulimit -s unlimited 2>/dev/null; "
        cmd = ["bash", "-c", limits + "exec " + exe]
        try:
            p = subprocess.run(cmd, input=data, stdout=subprocess.PIPE, stderr=subprocess.DEVNULL, text=True, timeout=timeout)
            got = p.stdout.splitlines()
            rc = p.returncode
            timed = False
        except subprocess.TimeoutExpired as ex:
            so = ex.stdout or b""
            if isinstance(so, bytes):
                so = so.decode("utf8", "replace")
            got = so.splitlines()
            if so and not so.endswith("\n"):
                got = got[:-1]
            rc = None
            timed = True
        if len(got) >= len(chunk):
            outs.extend(got[:len(chunk)])
            break
        outs.extend(got)
        outs.append("TIMEOUT" if timed else "ABORT %s" % rc)
        pos += len(got) + 1
    return outs


def run_exe(exe, lines, timeout=600, shards=NPROC, unlimited_stack=False):
    if not lines:
        return []
    n = max(1, min(shards, (len(lines) + 199) // 200))
    size = (len(lines) + n - 1) // n
    chunks = [lines[i:i + size] for i in range(0, len(lines), size)]
    with cf.ThreadPoolExecutor(max_workers=n) as ex:
        res = list(ex.map(lambda c: _run_chunk(exe, c, timeout, unlimited_stack), chunks))
    out = []
    for r in res:
        out.extend(r)
    return out


def coq_eval_lines(lines, timeout=600):
    """Evaluates run_line on the given case lines inside coqc with vm_compute."""
    d = os.path.join(CACHE, "coqeval")
    os.makedirs(d, exist_ok=True)
    body = ";\n ".join("[" + ";".join(str(b) for b in l.encode("ascii")) + "]" for l in lines)
    src = ("From JP Require Import Base Run.\nOpen Scope Z_scope.\n"
           "Definition cases : list (list Z) := [\n %s ].\nEval vm_compute in map run_line cases.\n" % body)
    p = os.path.join(d, "cases_%d.v" % os.getpid())
    open(p, "w").write(src)
    rc, out = sh(["coqc", "-noglob", "-Q", os.path.join(COQ, "theories"), "JP", p], timeout=timeout)
    for ext in (".v", ".vo", ".vok", ".vos", ".glob"):
        try:
            os.remove(p[:-2] + ext)
        except OSError:
            pass
    if rc != 0:
        return None, out
    m = re.search(r"=\s*(\[.*\])\s*:\s*list \(list Z\)", out, re.S)
    if not m:
        return None, out
    t = m.group(1).replace("%Z", "").replace(";", ",")
    t = re.sub(r"\s+", "", t)
    arr = json.loads(t)
    return ["".join(chr(c) for c in l) for l in arr], out


# ----------------------------------------------------------------------------- known findings / evidence

def load_known():
    p = os.path.join(ROOT, "known_findings.json")
    if not os.path.exists(p):
        return []
    return json.load(open(p))


def write_evidence(pid, tier, seed, coverage, assumptions, wall, violations):
    ev = {"property_id": pid, "tier": tier, "seed": seed, "level": "proof", "coverage": coverage,
          "assumptions": assumptions, "wall_s": round(wall, 2), "violations": violations}
    p = os.path.join(ROOT, "evidence", pid + ".json")
    with open(p, "w") as f:
        json.dump(ev, f, indent=1, ensure_ascii=True)
    return p


def write_replay(pid, name, obj):
    d = os.path.join(ROOT, "evidence", "replays")
    os.makedirs(d, exist_ok=True)
    p = os.path.join(d, "%s-%s.json" % (pid, name))
    with open(p, "w") as f:
        json.dump(obj, f, indent=1, ensure_ascii=True)
    return p
