"""Python side of the wire format (coq/theories/Wire.v)."""


def s(text):
    return '"' + ",".join(str(ord(c)) for c in text)


def uns(tok):
    """wire string token -> text"""
    assert tok.startswith('"')
    body = tok[1:]
    return "".join(chr(int(x)) for x in body.split(",")) if body else ""


def optint(x):
    return "_" if x is None else str(x)


def val(v):
    """Python value -> wire. ints -> PosInt/NegInt; floats must be given as ('d', bits) tuples; ('&', ast) exprefs."""
    if v is None:
        return "n"
    if v is True:
        return "t"
    if v is False:
        return "f"
    if isinstance(v, int):
        return ("u%d" % v) if v >= 0 else ("i%d" % v)
    if isinstance(v, float):
        import struct
        return "d%016x" % struct.unpack(">Q", struct.pack(">d", v))[0]
    if isinstance(v, str):
        return s(v)
    if isinstance(v, tuple) and v[0] == "d":
        return "d%016x" % v[1]
    if isinstance(v, tuple) and v[0] == "&":
        return "& " + v[1]
    if isinstance(v, list):
        return " ".join(["["] + [val(x) for x in v] + ["]"])
    if isinstance(v, dict):
        items = sorted(v.items(), key=lambda kv: [ord(c) for c in kv[0]])
        return " ".join(["{"] + [s(k) + " " + val(x) for k, x in items] + ["}"])
    raise ValueError(v)


def unval(tokens, i=0):
    """wire tokens -> (python value, next index); floats become ('d', bits)."""
    t = tokens[i]
    if t == "n":
        return None, i + 1
    if t == "t":
        return True, i + 1
    if t == "f":
        return False, i + 1
    if t[0] == "u" or t[0] == "i":
        return int(t[1:]), i + 1
    if t[0] == "d":
        return ("d", int(t[1:], 16)), i + 1
    if t[0] == '"':
        return ("".join(chr(int(c)) for c in t[1:].split(",")) if len(t) > 1 else ""), i + 1
    if t == "[":
        out = []
        i += 1
        while tokens[i] != "]":
            v, i = unval(tokens, i)
            out.append(v)
        return out, i + 1
    if t == "{":
        out = {}
        i += 1
        while tokens[i] != "}":
            k, i = unval(tokens, i)
            v, i = unval(tokens, i)
            out[k] = v
        return out, i + 1
    raise ValueError(t)
