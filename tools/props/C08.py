"""C08: JSON data passes through unchanged (identity query, text round trip, serde_json::Value round trip)."""
import json
import struct

import framework
import gen
import wire


def bits(x):
    return struct.unpack(">Q", struct.pack(">d", x))[0]


def ordered(b):
    return b if b < 2**63 else -(b - 2**63)


def sig_digits(t):
    m = t.lstrip("-").lower().split("e")[0].replace(".", "").lstrip("0")
    return len(m.rstrip("0")) if m.strip("0") else 0


def dec_exp(t):
    """decimal exponent of the last significant digit (value = digits * 10^exp) and of the text's exponent part"""
    t = t.lstrip("-").lower()
    mant, _, e = t.partition("e")
    e = int(e) if e else 0
    frac = mant.partition(".")[2]
    return e - len(frac), e


def classify(t):
    """expected leaf for a JSON number text"""
    is_int = not any(c in t for c in ".eE")
    if is_int and t != "-0":
        n = int(t)
        if -2**63 <= n < 2**64 and not (t.startswith("-") and n == 0):
            return ("int", n)
    f = float(t)
    if f in (float("inf"), float("-inf")):
        return ("reject",)
    lowexp, _ = dec_exp(t)
    digits = t.lstrip("-").lower().split("e")[0].replace(".", "").lstrip("0")
    # "at most 15 significant digits and a decimal exponent within +-22": one exact IEEE operation on exact operands
    if len(digits) <= 15 and -22 <= lowexp <= 22:
        return ("fexact", bits(f))
    return ("f2ulp", bits(f))


def num_text(rng):
    r = rng.random()
    if r < 0.25:
        return str(rng.choice([0, 1, -1, 2**63 - 1, 2**63, -2**63, 2**64 - 1, 2**53, 2**53 + 1, 9007199254740993, -9007199254740993,
                               12345678901234567890, rng.randint(-2**63, 2**64 - 1), rng.randint(-1000, 1000)]))
    if r < 0.33:
        return str(rng.choice([2**64, 2**64 + 1, -2**63 - 1, 10**25, -10**30, 123456789012345678901234567890]))
    if r < 0.36:
        return rng.choice(["-0", "-0.0", "0.0", "0e0", "-0e-5", "0.000"])
    if r < 0.62:
        d = rng.randint(1, 15)
        m = str(rng.randint(10**(d - 1), 10**d - 1))
        p = rng.randint(0, d)
        t = m[:p] + "." + m[p:] if 0 < p < d else (m if p == d else "0." + m)
        if rng.random() < 0.5:
            t += rng.choice(["e", "E"]) + rng.choice(["", "+", "-"]) + str(rng.randint(0, 22 - d if d < 22 else 0))
        return ("-" if rng.random() < 0.3 else "") + t
    if r < 0.85:
        x = struct.unpack(">d", struct.pack(">Q", rng.getrandbits(64) & 0x7fefffffffffffff | (rng.getrandbits(1) << 63)))[0]
        return repr(x)
    if r < 0.92:
        return rng.choice(["5e-324", "2.2250738585072014e-308", "1.7976931348623157e308", "4.9e-324", "1e-400", "1e308", "1e-320", "2.5e-324",
                           "123456789.123456789123456789", "0.1", "0.30000000000000004", "1e22", "1e23", "8.5e22", "9007199254740993.0", "1e15", "1e16"])
    m = str(rng.randint(1, 10**rng.randint(16, 40)))
    return m + rng.choice(["", ".5", "e-10", "e5", ".25e-3"])


ESC = {'"': '\\"', "\\": "\\\\", "\n": "\\n", "\t": "\\t", "\r": "\\r", "\b": "\\b", "\f": "\\f", "/": "\\/"}


def str_text(rng, s):
    out = ['"']
    for c in s:
        k = rng.random()
        o = ord(c)
        if c in ESC and (c in '"\\' or o < 0x20 or k < 0.5):
            out.append(ESC[c])
        elif o < 0x20 or k < 0.15:
            if o >= 0x10000:
                o -= 0x10000
                out.append("\\u%04x\\u%04X" % (0xd800 + (o >> 10), 0xdc00 + (o & 0x3ff)))
            else:
                out.append(("\\u%04x" if rng.random() < 0.5 else "\\u%04X") % o)
        else:
            out.append(c)
    return "".join(out) + '"'


CHARS = ["a", "b", "é", "中", "\U0001f600", '"', "\\", "/", "\n", "\t", "\x00", "\x1f", "\x7f", " ", " ", "퟿", "", "\U0010ffff", "0", "`", "'", "\ufeff", "\u200b", "\u2060", "\ufffe", "\uffff", "\u00ad", "\u2028", "\u2029", "\u0085", "\u200d", "\ufe0f", "\u0301", "\u00a0", "\ue000"]


def rand_s(rng, n=5):
    return "".join(rng.choice(CHARS) for _ in range(rng.randint(0, n)))


def gen_doc(rng, depth):
    """-> (json text, expected tree)"""
    ws = lambda: rng.choice(["", "", " ", "\n", "\t ", "\r\n"])
    r = rng.random()
    if depth <= 0 or r < 0.45:
        k = rng.random()
        if k < 0.1:
            return "null", None
        if k < 0.2:
            b = rng.random() < 0.5
            return ("true" if b else "false"), b
        if k < 0.65:
            t = num_text(rng)
            return t, ("num", classify(t), t)
        s = rand_s(rng)
        return str_text(rng, s), s
    if r < 0.75:
        n = rng.randint(0, 4)
        parts = [gen_doc(rng, depth - 1) for _ in range(n)]
        return "[" + ws() + ("," + ws()).join(p[0] + ws() for p in parts) + "]", [p[1] for p in parts]
    n = rng.randint(0, 4)
    exp = {}
    texts = []
    for _ in range(n):
        k = rand_s(rng, 3) if rng.random() < 0.8 else rng.choice(["a", "b"])
        t, e = gen_doc(rng, depth - 1)
        texts.append(str_text(rng, k) + ws() + ":" + ws() + t)
        exp[k] = e            # last duplicate wins
    return "{" + ws() + ("," + ws()).join(x + ws() for x in texts) + "}", exp


def contains_reject(e):
    if isinstance(e, tuple) and e and e[0] == "num":
        return e[1][0] == "reject"
    if isinstance(e, list):
        return any(contains_reject(x) for x in e)
    if isinstance(e, dict):
        return any(contains_reject(x) for x in e.values())
    return False


def compare(exp, got, path="$"):
    """-> None or message"""
    if isinstance(exp, tuple) and exp and exp[0] == "num":
        cls = exp[1]
        if cls[0] == "int":
            if isinstance(got, int) and not isinstance(got, bool) and got == cls[1]:
                return None
            return "%s: integer %s must keep its exact value, got %r" % (path, exp[2], got)
        if not (isinstance(got, tuple) and got[0] == "d"):
            return "%s: numeral %s must be a double, got %r" % (path, exp[2], got)
        d = abs(ordered(got[1]) - ordered(cls[1]))
        if cls[0] == "fexact" and d != 0:
            return "%s: numeral %s (<=15 digits, exponent within +-22) must be the exact double %016x, got %016x" % (path, exp[2], cls[1], got[1])
        if d > 2:
            return "%s: numeral %s is %d ulp away from the nearest double" % (path, exp[2], d)
        return None
    if exp is None or isinstance(exp, (bool, str)):
        return None if (got == exp and type(got) == type(exp)) else "%s: expected %r, got %r" % (path, exp, got)
    if isinstance(exp, list):
        if not isinstance(got, list) or len(got) != len(exp):
            return "%s: array of %d elements expected, got %r" % (path, len(exp), got)
        for i, (a, b) in enumerate(zip(exp, got)):
            m = compare(a, b, "%s[%d]" % (path, i))
            if m:
                return m
        return None
    if isinstance(exp, dict):
        if not isinstance(got, dict) or set(got) != set(exp):
            return "%s: object keys %r expected, got %r" % (path, sorted(exp), got)
        for k in exp:
            m = compare(exp[k], got[k], "%s.%s" % (path, k))
            if m:
                return m
        return None
    return "%s: ?" % path


class P(framework.Prop):
    id = "C08"
    rule = ("json cases: seeded documents (nesting <= 5) with number leaves drawn from: integers across and beyond the i64/u64 range, "
            "decimals with <= 15 significant digits and exponent within +-22, random doubles by shortest repr (17 digits), subnormals, huge and "
            "tiny exponents, 16..40 digit numerals; strings over several planes with every escape form and surrogate pairs; duplicate keys; "
            "random inter-token whitespace; plus malformed texts (truncation, lone surrogates, control characters, depth 127/128/129). "
            "Oracle computed in Python from the text: exact integers, exact doubles in the 15-digit class, <= 2 ulp otherwise, strings, order, "
            "last duplicate wins, re-parse of the printed text equal, Value round trips lossless. Non-trivial = accepted document")
    assumptions = ["slow-path float reading and shortest-digit printing are third-party (serde_json, zmij): modelled and validated here, not proved"]

    def cases(self, rng, tier):
        self.expect = {}
        out = []
        N = 2500 if tier == "quick" else 150000
        for _ in range(N):
            text, exp = gen_doc(rng, rng.choice([0, 1, 2, 3, 5]))
            line = "json " + wire.s(text)
            self.expect[line] = exp
            out.append(line)
        for _ in range(N // 5):
            text, _ = gen_doc(rng, 2)
            k = rng.random()
            if k < 0.4 and text:
                text = text[:rng.randrange(len(text))]
            elif k < 0.7 and text:
                i = rng.randrange(len(text))
                text = text[:i] + rng.choice(['"', "\\", ",", "]", "}", "\x01", "\\ud800", "\\udc00", "1", "-", ".", "e", "tru", " ", "\\u12"]) + text[i:]
            else:
                text = text + rng.choice([" ", "x", ",", "]", "1", "\n\t "])
            out.append("json " + wire.s(text))
        # invisible and special code points are content inside strings and keys, and not white space outside of them
        for ch in ["\ufeff", "\u200b", "\u2060", "\ufffe", "\u00ad", "\u00a0", "\u2028", "\u0085", "\u200d", "\u0301", "\x0b", "\x0c"]:
            docs = [('"a%sb"' % ch, "a%sb" % ch), ('"%s"' % ch, ch), ('"%s%s"' % (ch, ch), ch + ch), ('{"k": "p", "k%s": "q"}' % ch, {"k": "p", "k" + ch: "q"}),
                    ('{"%sk": ["p"], "k": ["q"]}' % ch, {ch + "k": ["p"], "k": ["q"]}), ('["%s", "", "%sx"]' % (ch, ch), [ch, "", ch + "x"])]
            for text, exp in (docs if ord(ch) >= 0x20 else []):
                line = "json " + wire.s(text)
                self.expect[line] = exp
                out.append(line)
            for text in [ch + "1", "1" + ch, "[1," + ch + "2]", ch, '{"a"' + ch + ":1}", ch + '"a"', "[" + ch + "]"]:
                out.append("json " + wire.s(text))
        for d in (126, 127, 128, 129):
            out.append("json " + wire.s("[" * d + "]" * d))
            out.append("json " + wire.s('{"a":' * d + "1" + "}" * d))
        return out

    def oracle(self, case, iobs):
        if case not in self.expect:
            return None
        exp = self.expect[case]
        if contains_reject(exp):
            return None if iobs == "ERR json" else None
        if not iobs.startswith("OK "):
            return "a valid JSON document was not accepted: %s" % iobs
        t = iobs.split(" ")
        try:
            got, i = wire.unval(t, 1)
        except Exception:
            return "unreadable observation"
        m = compare(exp, got)
        if m:
            return m
        rest = t[i:]
        if len(rest) >= 6 and (rest[3] != "t" or rest[5] != "t"):
            return "print/re-parse or serde_json::Value round trip is lossy: %s" % " ".join(rest[2:])
        # integer spelling is kept in the printed text
        return None

    def nontrivial(self, case, mobs):
        return mobs.startswith("OK")
