"""C14: serde bridge — typed values are searched as their JSON image and decode back."""
import struct

import framework
import gen
import wire

INTS = {"I8": (-128, 127), "I16": (-32768, 32767), "I32": (-2**31, 2**31 - 1), "I64": (-2**63, 2**63 - 1),
        "U8": (0, 255), "U16": (0, 65535), "U32": (0, 2**32 - 1), "U64": (0, 2**64 - 1)}
NAMES = ["a", "b", "A", "Variant", "é", "x y", ""]


def f64hex(x):
    return "%016x" % struct.unpack(">Q", struct.pack(">d", x))[0]


def f32hex(x):
    return "%08x" % struct.unpack(">I", struct.pack(">f", x))[0]


def dyn(rng, depth):
    r = rng.random()
    if depth <= 0 or r < 0.45:
        k = rng.random()
        if k < 0.08:
            return "B " + rng.choice("tf")
        if k < 0.45:
            w = rng.choice(list(INTS))
            lo, hi = INTS[w]
            return "%s %d" % (w, rng.choice([lo, hi, 0, 1, rng.randint(lo, hi), min(hi, 2**63), min(hi, 2**63 - 1)]))
        if k < 0.55:
            return "F32 " + rng.choice([f32hex(0.1), f32hex(1.5), f32hex(-2.25), "7f800000", "ff800000", "7fc00000", f32hex(16777217.0), "00000001", "80000000", f32hex(3.4e38)])
        if k < 0.68:
            return "F64 " + rng.choice([f64hex(0.1), f64hex(1e300), f64hex(-0.0), "7ff0000000000000", "fff0000000000000", "7ff8000000000000", f64hex(5e-324), f64hex(2.0**53)])
        if k < 0.74:
            return "C %d" % rng.choice([97, 233, 0x4e2d, 0x1f600, 0, 34, 92])
        if k < 0.84:
            return "S " + wire.s(gen.rand_string(rng, 3))
        if k < 0.88:
            return "Y [ %s ]" % " ".join(str(rng.randint(0, 255)) for _ in range(rng.randint(0, 4)))
        return rng.choice(["None", "Unit", "UStruct", "UVar " + wire.s(rng.choice(NAMES))])
    sub = lambda: dyn(rng, depth - 1)
    lst = lambda: "[ %s ]" % " ".join(sub() for _ in range(rng.randint(0, 3)))
    flds = lambda: "{ %s }" % " ".join(wire.s(rng.choice(NAMES)) + " " + sub() for _ in range(rng.randint(0, 3)))
    k = rng.random()
    if k < 0.1:
        return "Some " + sub()
    if k < 0.16:
        return "NStruct " + sub()
    if k < 0.24:
        return "NVar %s %s" % (wire.s(rng.choice(NAMES)), sub())
    if k < 0.36:
        return "Seq " + lst()
    if k < 0.44:
        return "Tup " + lst()
    if k < 0.5:
        return "TStruct " + lst()
    if k < 0.58:
        return "TVar %s %s" % (wire.s(rng.choice(NAMES)), lst())
    if k < 0.74:
        def key():
            q = rng.random()
            if q < 0.6:
                return "S " + wire.s(rng.choice(NAMES))
            if q < 0.75:
                return "C %d" % rng.choice([97, 233, 0x1f600])
            if q < 0.9:
                return "UVar " + wire.s(rng.choice(NAMES))
            return "NStruct S " + wire.s(rng.choice(NAMES))
        return "Map { %s }" % " ".join(key() + " " + sub() for _ in range(rng.randint(0, 3)))
    if k < 0.88:
        return "Struct " + flds()
    return "SVar %s %s" % (wire.s(rng.choice(NAMES)), flds())


TYPES = {
    "bool": [True, False, None, 1, "true"], "i8": [0, -128, 127, 128, -129, 1.0, 1.5, "1"], "i16": [32767, 32768, -32768], "i32": [2**31 - 1, 2**31, -2**31, None],
    "i64": [2**63 - 1, 2**63, -2**63, 1.0], "u8": [0, 255, 256, -1], "u16": [65535, 65536], "u32": [2**32 - 1, 2**32, -1], "u64": [2**64 - 1, 2**63, -1, 1.5, 1e19],
    "f32": [1.5, 1, 0.1, 1e300, None, "x"], "f64": [1.5, 1, 2**64 - 1, -2**63, 0.1, None], "char": ["a", "é", "ab", "", "\U0001f600", 1], "string": ["", "a\n", 1, None],
    "unit": [None, 0, [], {}], "opt_i32": [None, 1, "x", [1]], "opt_opt": [None, True, [None]], "vec_u64": [[], [1, 2**64 - 1], [1, -1], [2**63, 2**63 + 1], "x", {}],
    "vec_vec": [[[1], [], [2, 3]], [[300]], [1]], "tup2": [[1, 2], [1, 2, 3], [1], [], [1, "x"], {"0": 1}], "tup3": [[1, "s", None], [1, "s", True, 4], [1, "s"]],
    "arr2": [[1, 2], [1, 2, 3], [1]], "map_u32": [{}, {"a": 1, "b": 2**32 - 1}, {"a": -1}, [["a", 1]]], "map_char": [{"a": 1, "é": -2}, {"ab": 1}, {"": 1}],
    "pt": [{"x": 1, "y": "s"}, {"x": 1}, {"x": 1, "y": None}, {"y": "s"}, {"x": 1, "y": "s", "z": 3}, [1, "s"], [1, "s", 3], [1], {"x": "1"}],
    "wrap": [7, [7], 256, {"0": 7}, [7, 8]], "pair": [[1, "s"], [1, "s", 2], [1], {"0": 1, "1": "s"}], "marker": [None, [], {}, 0],
    "en": ["A", "B", {"B": 3}, {"C": [1, True]}, {"C": [1, True, 2]}, {"C": [1]}, {"D": {"p": 1.5, "q": [1, 2]}}, {"D": {"p": 1, "q": []}}, {"A": None}, {"A": 1},
           {"B": 3, "A": None}, {}, "Z", {"Z": 1}, {"D": [1.5, [1]]}, {"C": {"0": 1}}, ["A"], 0],
    "nest": [{"e": "A", "l": [{"x": 1}], "m": {"k": None, "j": {"B": 2}}, "t": [2**64 - 1, -2**63], "w": 9},
             {"e": {"C": [1, False]}, "l": [], "m": {}, "t": [1, 2, 3], "w": 9}],
    "value": [None, 1, 2**64 - 1, -2**63, 1.5, "s", [1, [2]], {"a": {"b": None}}, [], {}, [[]], {"a": []}, [{}], [[], [[]], {"k": [[]]}], [None], {"": None}],
    "map_nt": [{"alice": 10, "bob": 0}, {}, {"": 1}, {"a": -1}, [["a", 1]]],
    "map_nt_nest": [{"g": {"alice": ["x"], "bob": []}}, {"g": {}}, {}],
    "map_enumkey": [{"Red": 1, "Green": -1}, {"Blue": 1}, {}, {"red": 1}],
    "map_i32key": [{"1": True, "-2": False}, {"x": True}, {"1.0": True}, {" 1": True}, {"2147483648": True}, {}],
    "map_u64key": [{"18446744073709551615": None, "0": 3}, {"-1": 1}, {"+1": 1}],
    "map_boolkey": [{"true": 1, "false": 0}, {"True": 1}],
    "hmap_nt": [{"alice": 10}, {}],
    "ip": ["10.0.0.1", "::1", "300.0.0.1", {"V4": [10, 0, 0, 1]}, [10, 0, 0, 1], 1],
    "en2": [{"At": None}, {"At": 3}, {"At": "x"}, "At", {"Mark": None}, {"Mark": []}, "Mark", {"U": None}, {"U": []}, {"W": 7}, {"W": None}, {"V": []}, {"V": None}, {"V": [1, 2]},
            {"N": None}, {"N": True}, {"E": "A"}, {"E": {"B": 1}}, {"E": None}, {"S": {}}, {"S": None}, {"S": []}, "S", {"T": []}, {"T": None}, "T", {"At": [None]}, {"At": None, "W": 1}, None],
    "opt_en": [None, "A", {"B": 1}, {"A": None}, [None]],
    "vec_en2": [[], [{"At": None}, {"Mark": None}, {"N": None}], [{"V": []}, "At"]],
    "map_en2": [{}, {"a": {"At": None}, "b": {"E": "A"}}, {"a": None}],
}


# ---- type-directed values for the decoding model (`dex` lines): the same descriptors as Run.v's dex_types
def _i(lo, hi): return ("int", lo, hi)
I8, I16, I32, I64 = _i(-2**7, 2**7 - 1), _i(-2**15, 2**15 - 1), _i(-2**31, 2**31 - 1), _i(-2**63, 2**63 - 1)
U8, U16, U32, U64 = _i(0, 2**8 - 1), _i(0, 2**16 - 1), _i(0, 2**32 - 1), _i(0, 2**64 - 1)
T_PT = ("struct", [("x", I32), ("y", ("opt", ("str",)))])
T_WRAP = ("newtype", U8)
T_EN = ("enum", [("A", ("unit",)), ("B", ("newtype", U32)), ("C", ("tstruct", [I8, ("bool",)])), ("D", ("struct", [("p", ("f64",)), ("q", ("seq", U8))]))])
T_EN2 = ("enum", [("At", ("newtype", ("opt", I32))), ("Mark", ("newtype", ("unit",))), ("U", ("newtype", ("ustruct",))), ("W", ("newtype", T_WRAP)),
                  ("V", ("newtype", ("seq", U8))), ("N", ("newtype", ("opt", ("opt", ("bool",))))), ("E", ("newtype", T_EN)), ("S", ("struct", [])), ("T", ("tstruct", []))])
K_STR, K_UID, K_COLOR = ("kstr",), ("knewtype", ("kstr",)), ("kenum", ["Red", "Green"])
DEX = {
    "bool": ("bool",), "i8": I8, "i16": I16, "i32": I32, "i64": I64, "u8": U8, "u16": U16, "u32": U32, "u64": U64, "f64": ("f64",), "char": ("char",),
    "string": ("str",), "unit": ("unit",), "opt_i32": ("opt", I32), "opt_opt": ("opt", ("opt", ("bool",))), "vec_u64": ("seq", U64), "vec_vec": ("seq", ("seq", I8)),
    "tup2": ("tuple", [I32, I32]), "tup3": ("tuple", [U8, ("str",), ("opt", ("bool",))]), "arr2": ("tuple", [I32, I32]),
    "map_u32": ("map", K_STR, U32), "map_char": ("map", ("kchar",), I64), "pt": T_PT, "wrap": T_WRAP, "pair": ("tstruct", [I16, ("str",)]), "marker": ("ustruct",),
    "en": T_EN, "nest": ("struct", [("e", T_EN), ("l", ("seq", T_PT)), ("m", ("map", K_STR, ("opt", T_EN))), ("t", ("tuple", [U64, I64])), ("w", T_WRAP)]),
    "map_nt": ("map", K_UID, U32), "map_nt_nest": ("map", K_STR, ("map", K_UID, ("seq", ("str",)))), "map_enumkey": ("map", K_COLOR, I8),
    "map_i32key": ("map", ("kint", -2**31, 2**31 - 1), ("bool",)), "map_u64key": ("map", ("kint", 0, 2**64 - 1), ("opt", U8)), "map_boolkey": ("map", ("kbool",), U8),
    "en2": T_EN2, "opt_en": ("opt", T_EN), "vec_en2": ("seq", T_EN2), "map_en2": ("map", K_STR, T_EN2), "value": ("value",),
}
WORDS = ["", "a", "b", "x", "y", "é", "ab", "A", "B", "Red", "true", "1", "-2", "1.0", "01", " 1", "1 ", "1e2", "-0", "+1", "18446744073709551615", "\U0001f600"]


def fit_key(rng, k):
    if k[0] == "kstr": return rng.choice(WORDS)
    if k[0] == "kchar": return rng.choice(["a", "é", "\U0001f600", "z", "ab", ""])
    if k[0] == "kint":
        return rng.choice([str(rng.choice([k[1], k[2], 0, 1, -1, 7, k[1] - 1, k[2] + 1, rng.randint(k[1], k[2])])), "1.0", "01", " 1", "1 ", "1e2", "-0", "+1", "x", "", "-", "0x1", "1\n"])
    if k[0] == "kbool": return rng.choice(["true", "false", "True", "", "1"])
    if k[0] == "knewtype": return fit_key(rng, k[1])
    if k[0] == "kenum": return rng.choice(k[1] + ["Blue", "red", ""])


def fit(rng, t, miss=0.12):
    """a JSON value that (mostly) decodes into t; with probability `miss` per node something nearby that may not"""
    if rng.random() < miss:
        return rng.choice([None, True, 0, -1, 1.5, "", "A", [], [None], {}, {"A": None}, [1, 2, 3], 2**64 - 1, -2**63, {"x": 1}])
    k = t[0]
    if k == "bool": return rng.random() < 0.5
    if k == "int": return min(2**64 - 1, max(-2**63, rng.choice([t[1], t[2], 0, 1, -1, t[1] - 1, t[2] + 1, rng.randint(t[1], t[2]), 1.0])))
    if k == "f64": return rng.choice([1.5, 1, -1, 2**64 - 1, -2**63, 2**53 + 1, 0.1, 1e300, -0.0, 5e-324])
    if k == "char": return rng.choice(["a", "é", "\U0001f600", "ab", ""])
    if k == "str": return rng.choice(WORDS)
    if k in ("unit", "ustruct"): return None
    if k == "opt": return None if rng.random() < 0.3 else fit(rng, t[1], miss)
    if k == "seq": return [fit(rng, t[1], miss) for _ in range(rng.choice([0, 1, 2, 3]))]
    if k in ("tuple", "tstruct"):
        l = [fit(rng, x, miss) for x in t[1]]
        q = rng.random()
        return l[:-1] if q < 0.08 and l else l + [None] if q < 0.16 else l
    if k == "newtype": return fit(rng, t[1], miss)
    if k == "struct":
        q = rng.random()
        if q < 0.15:
            l = [fit(rng, x, miss) for _, x in t[1]]
            return l[:-1] if rng.random() < 0.2 and l else l + [1] if rng.random() < 0.2 else l
        o = {}
        for n, x in t[1]:
            if rng.random() < 0.85:
                o[n] = fit(rng, x, miss)
        if rng.random() < 0.2:
            o[rng.choice(["z", "extra", ""])] = rng.choice([None, 1, [1, [2]], {"a": {}}])
        return o
    if k == "enum":
        n, p = rng.choice(t[1])
        q = rng.random()
        if q < 0.06: n = rng.choice(["Z", "", "a"])
        if p[0] == "unit":
            return n if rng.random() < 0.6 else {n: rng.choice([None, None, 1, []])}
        if rng.random() < 0.08: return n
        v = {n: fit(rng, p if p[0] != "newtype" else p[1], miss)}
        if rng.random() < 0.05: v["B"] = 1
        return v
    if k == "map":
        return {fit_key(rng, t[1]): fit(rng, t[2], miss) for _ in range(rng.choice([0, 1, 2, 3]))}
    if k == "value": return gen.rand_doc(rng, 3)



class P(framework.Prop):
    id = "C14"
    rule = ("ser cases: seeded values of all serde data-model shapes (nested to depth 4; every integer width at its extremes; f32/f64 incl. "
            "non-finite and subnormal; chars, bytes, options, unit forms, the four enum variant shapes, tuples, sequences, string/char/unit-variant "
            "keyed maps, structs) through Variable::from_serializable vs serde_json::to_value and four probe searches on the typed value vs its "
            "JSON image; de cases: 30 Rust target types x fitting and near-miss JSON values (wrong length, wrong width, extra/missing fields, "
            "all enum encodings) through T::deserialize(Variable) vs serde_json::from_value. Non-trivial = accepted value")
    assumptions = ["serde_json's own serializer/deserializer is the oracle for the decoding half (third-party, not modelled)",
                   "maps are string-keyed (strings, chars, unit variants), as the property says"]

    def cases(self, rng, tier):
        out = []
        N = 2500 if tier == "quick" else 150000
        for _ in range(N):
            out.append("ser " + dyn(rng, rng.choice([0, 1, 2, 3, 4])))
        for x in ["IP4 10 0 0 1", "IP4 255 255 255 255", "IP6 0 0 0 0 0 0 0 1", "IP6 8193 3512 0 0 0 0 0 1", "SOCK 127 0 0 1 8080", "HR",
                  "Seq [ IP4 1 2 3 4 HR ]", "Struct { \"97,100,100,114 IP4 10 0 0 1 \"104 HR }", "Some HR", "NVar \"65 SOCK 1 2 3 4 5", "Map { S \"107 IP6 0 0 0 0 0 0 0 0 }", "Tup [ HR HR ]"]:
            out.append("serx " + x)
        for ty, vals in TYPES.items():
            for v in vals:
                out.append("de %s %s" % (ty, wire.val(v)))
            K = 15 if tier == "quick" else 400
            for _ in range(K):
                out.append("de %s %s" % (ty, wire.val(gen.rand_doc(rng, 2))))
        # the decoding model: the same and type-directed values, observed structurally, against [Decode.de]
        for ty, t in DEX.items():
            for v in TYPES.get(ty, []):
                out.append("dex %s %s" % (ty, wire.val(v)))
            for _ in range(40 if tier == "quick" else 4000):
                out.append("dex %s %s" % (ty, wire.val(fit(rng, t))))
            for _ in range(6 if tier == "quick" else 300):
                out.append("dex %s %s" % (ty, wire.val(gen.rand_doc(rng, 2))))
        return out

    def oracle(self, case, iobs):
        parts = iobs.split(" | ")
        if case.startswith("de ") or case.startswith("dex "):
            if len(parts) != 2:
                return "unreadable observation %s" % iobs
            if parts[0] != parts[1]:
                return "decoding through the library gives %s, serde_json gives %s" % (parts[0], parts[1])
            return None
        if len(parts) < 2:
            return None
        if parts[0] != parts[1]:
            return "the library converts the typed value to %s, serde_json to %s" % (parts[0], parts[1])
        if "#" in iobs:
            return "searching the typed value differs from searching its JSON image: %s" % iobs[-12:]
        return None

    def nontrivial(self, case, mobs):
        return True
