"""C01: search results conform to the specification (core forms)."""
import framework
import gen
import wire


class P(framework.Prop):
    id = "C01"
    rule = ("evalast: seeded random trees over the 17 core node kinds (depth<=5) x random documents (heterogeneous arrays, missing keys, "
            "nulls, empty containers, numeric edge values); search: every compliance expression x its own document and x documents of other "
            "suites; truthiness table; non-trivial = model result is neither null nor an error")
    assumptions = ["documents are handed over as values (floats by bit pattern), so text->double conversion is out of this surface (C08)",
                   "Index i32::MIN cannot be produced by the parser and is excluded"]

    def spec_line(self, case):
        if case.startswith("evalast "):
            return "speceval " + case[len("evalast "):]
        if case.startswith("search "):
            # the specification end to end: reference parser (documented binding powers, nothing read from the source) + evaluation
            return "refsearch " + case[len("search "):]
        return None

    def spec_equal(self, sobs, iobs):
        if sobs.startswith("ERR parse"):
            return True     # not a sentence of the reference grammar: the property quantifies over valid expressions only (C03/C04 decide these)
        return framework.canon(sobs) == framework.canon(iobs)

    def cases(self, rng, tier):
        out = []
        N = 4000 if tier == "quick" else 200000
        docs = [gen.rand_doc(rng, 4) for _ in range(60)]
        for _ in range(N):
            a = gen.rand_ast(rng, rng.choice([1, 2, 3, 4, 5]))
            d = rng.choice(docs) if rng.random() < 0.7 else gen.rand_doc(rng, 3)
            out.append('evalast " %s %s' % (a, wire.val(d)))
        # slices through the interpreter: bounds around the array ends (incl. exactly -len), both step signs
        for n in range(0, 5):
            arr = wire.val(list(range(n)))
            bounds = [None] + list(range(-n - 1, n + 2))
            for a in bounds:
                for b in bounds:
                    for c in (1, -1, 2, -2):
                        if tier != "quick" or rng.random() < 0.35:
                            out.append('evalast " Proj Slice 0 %s %s %d Identity %s' % (wire.optint(a), wire.optint(b), c, arr))
        cs = [c for c in gen.compliance_cases() if gen.doc_ok(c[1])]
        givens = []
        for c in cs:
            if c[1] not in givens:
                givens.append(c[1])
        for f, given, e, c in cs:
            out.append("search %s %s" % (wire.s(e), wire.val(given)))
        M = 1500 if tier == "quick" else 60000
        for _ in range(M):
            f, given, e, c = rng.choice(cs)
            out.append("search %s %s" % (wire.s(e), wire.val(rng.choice(givens))))
        # random sentences of the grammar through compile + search (the tree the parser builds is part of the result)
        K = 2500 if tier == "quick" else 120000
        for _ in range(K):
            toks = gen.gen_expr(rng, rng.choice([2, 3, 3, 4, 5]))
            out.append("search %s %s" % (wire.s(gen.render(rng, toks, 1.0)), wire.val(rng.choice(docs) if rng.random() < 0.6 else gen.rand_doc(rng, 3))))
        POST = ["[0]", "[-1]", "[*]", "[]", "[?a]", "[?b]", "[1:]", "[::-1]", ".*", ".a", ".b", ".[a,b]", ".{x:a}"]
        chain_doc = wire.val({"a": [{"a": True, "b": [{"a": 1, "b": 2}, {"a": None, "b": [3]}]}, {"a": [1, [2]], "b": {"a": [{"b": 1}], "b": 0}}, {"b": [{"a": 0}]}],
                              "b": {"a": [[{"a": 1, "b": []}], {"b": {"a": True}}], "b": [{"a": {"b": 1}}, {"a": [{"b": [1, 2]}]}]}})
        for _ in range(1500 if tier == "quick" else 60000):
            e = rng.choice(["a", "b", "@", "*", "[*]", "[]", "[?a]"]) + "".join(rng.choice(POST) for _ in range(rng.randint(2, 5)))
            out.append("search %s %s" % (wire.s(e), chain_doc))
        for v in [None, True, False, 0, 1, -1, 0.0, "", "a", [], [0], {}, {"a": None}, [None], [[]]]:
            out.append("truthy " + wire.val(v))
        return out
