"""C15: calls follow the runtime registry; custom functions receive evaluated arguments."""
import framework
import gen
import wire

NAMES = ["abs", "length", "foo", "bar", "sort_by", "not_null", "merge", "é"]
SIGS = ["-", "-", "S number / _", "S any / number", "S / string", "S any expref / _", "S an / _", "S object / object", "S string number / _", "S / _",
        "S aan / _", "S ans / _", "S aany / aan", "S uns / uns", "S uao / _", "S aaa / _", "S as / ans", "S / aan"]
CALLS = ["%s(@)", "%s(a)", "%s(a, b)", "%s(`1`, 'x', `2`)", "%s(a, &b)", "%s(&a, @)", "%s()", "%s(b, b)", "%s(@, @, @)", "%s(a, b, c)",
         "[%s(a), %s(b)]", "c[*].%s(@)", "%s(%s(a))", "%s(a) || 'fallback'", "%s(`{\"x\": 1}`, `{\"y\": 2}`, `1`)", "%s('s', a, b)",
         "missing | %s(@)", "missing.%s(@)", "a.missing.%s(@, `1`)", "missing | %s(`1`)", "`null` | %s(@)", "missing[0].%s(@)", "c[5] | %s(@)", "missing || %s(a)",
         "missing && %s(a)", "a.missing | [%s(@)]", "{r: missing | %s(@)}", "c[*].missing.%s(@)", "[missing | %s(@), a]",
         "%s(`[[1,2],[\"a\"]]`)", "%s(`[1,\"a\",2]`)", "%s(`[[1],[2,3],[]]`)", "%s(`[]`)", "%s(`[[]]`)", "%s(`[1,[2]]`)", "%s(`[[1],2]`)", "%s(c)", "%s(`[\"a\",1]`, `[[1],[\"b\"]]`)",
         "%s(`[1,2]`, `[[1],[2]]`, `[[3],[\"x\"]]`)", "%s(`[null,1]`)", "%s(`[[1],null]`)", "%s(`1`, `\"s\"`, `true`)", "%s(`{}`)", "%s(`[1,2,3]`)", "%s(`[\"a\",\"b\"]`, `[1,\"x\",[1]]`)"]
DOCS = [{"a": -3, "b": "s", "c": [1, [2], "x"]}, {"a": [3, 1, 2], "b": {"k": 1}, "c": []}, {"a": {"x": 1}, "b": {"y": 2}, "c": [{"a": 1}]}, None, [1, 2]]


def qname(n):
    return n if n.isascii() else '"%s"' % n


class P(framework.Prop):
    id = "C15"
    rule = ("hist cases: seeded histories of new/register/deregister/register-builtins over a pool of 8 names (builtin and new) and 10 "
            "signature shapes on up to 3 runtimes, followed by get_function probes, compile and search of call expressions (arguments incl. "
            "expression references and nested calls) over several documents; custom closures echo [id, arguments]; "
            "non-trivial = a history in which at least one call reaches a function")

    def cases(self, rng, tier):
        out = []
        N = 400 if tier == "quick" else 20000
        for _ in range(N):
            ops = []
            nid = 100
            rts = list(range(1, rng.randint(1, 3) + 1))
            for r in rts:
                ops.append("new %d" % r)
            for _ in range(rng.randint(0, 10)):
                r = rng.choice(rts)
                k = rng.random()
                name = rng.choice(NAMES)
                if k < 0.5:
                    nid += 1
                    ops.append("reg %d %s %d %s" % (r, wire.s(name), nid, rng.choice(SIGS)))
                elif k < 0.75:
                    ops.append("dereg %d %s" % (r, wire.s(name)))
                else:
                    ops.append("regb %d" % r)
            h = 0
            for r in rts + ([0] if rng.random() < 0.3 else []):
                for name in rng.sample(NAMES, 4):
                    ops.append("get %d %s" % (r, wire.s(name)))
                for _ in range(rng.randint(1, 4)):
                    h += 1
                    n1, n2 = rng.choice(NAMES), rng.choice(NAMES)
                    tpl = rng.choice(CALLS)
                    e = tpl % tuple([qname(n1) if i == 0 else qname(n2) for i in range(tpl.count("%s"))]) if tpl.count("%s") > 1 else tpl % qname(n1)
                    ops.append("compile %d %d %s" % (h, r, wire.s(e)))
                    for d in rng.sample(DOCS, 2):
                        ops.append("search %d %s" % (h, wire.val(d)))
            out.append("hist " + " ; ".join(ops))
        # every custom signature shape against every literal argument tuple (element-wise checks of typed arrays, nested typed arrays, unions,
        # variadic tails): validated before the closure runs, and the closure receives the evaluated arguments
        lits = [c for c in CALLS if "`" in c and c.count("%s") == 1] + ["%s(a)", "%s(c)", "%s(a, c)", "%s(c, c, c)"]
        for sig in SIGS:
            if sig == "-":
                continue
            for tpl in lits:
                ops = ["new 1", "reg 1 %s 201 %s" % (wire.s("f"), sig), "get 1 %s" % wire.s("f"), "compile 1 1 %s" % wire.s(tpl % "f"),
                       "search 1 %s" % wire.val(DOCS[0]), "search 1 %s" % wire.val(DOCS[1]), "search 1 %s" % wire.val({"a": [[1, 2], ["a"]], "c": [[1], [2, 3]]}),
                       "search 1 %s" % wire.val({"a": [1, "a", 2], "c": [1, 2]})]
                out.append("hist " + " ; ".join(ops))
        return out

    def nontrivial(self, case, mobs):
        return "OK [ u1" in mobs or " ; OK " in mobs
