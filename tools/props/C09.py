"""C09: raw strings, JSON literals and quoted identifiers denote exactly their value."""
import itertools
import json

import framework
import gen
import wire

ALPH = ["a", "'", "\\", "`", '"', "\n", "é", "\U0001f600", "\t", " ", "u", "0", "/", " ", "\x00", "\x1f", "\x7f", "中"]


def spellable(s):
    """no maximal run of backslashes of odd length is followed by ' or by the end of s"""
    i = 0
    n = len(s)
    while i < n:
        if s[i] == "\\":
            j = i
            while j < n and s[j] == "\\":
                j += 1
            if (j - i) % 2 == 1 and (j == n or s[j] == "'"):
                return False
            i = j
        else:
            i += 1
    return True


def rand_str(rng, maxlen=8):
    return "".join(rng.choice(ALPH) for _ in range(rng.randint(0, maxlen)))


def rand_json(rng, depth=3):
    r = rng.random()
    if depth <= 0 or r < 0.5:
        k = rng.random()
        if k < 0.1:
            return None
        if k < 0.2:
            return rng.random() < 0.5
        if k < 0.5:
            return rng.choice([0, 1, -1, 12345678901234567, -2**63, 2**64 - 1, 1.5, -0.25, 1e10, 1e-5, 123.456, 2.5e20, 1e21, 5e-7])
        return rand_str(rng, 6)
    if r < 0.75:
        return [rand_json(rng, depth - 1) for _ in range(rng.randint(0, 3))]
    return {rand_str(rng, 3): rand_json(rng, depth - 1) for _ in range(rng.randint(0, 3))}


class P(framework.Prop):
    id = "C09"
    rule = ("round trips with an expectation computed independently in Python: raw-string spelling of seeded strings over delimiters, "
            "backslashes, controls and astral characters (spellable ones must evaluate to themselves); backtick literals holding the JSON "
            "text of seeded values (backticks escaped) must evaluate to the value; quoted identifiers (JSON escapes, \\uXXXX, surrogate pairs) "
            "must select the member; exhaustive juxtapositions of delimiter/backslash/escape characters up to length 4 (quick) / 6 (thorough) "
            "inside each quoted form through parse; malformed quoted forms; non-trivial = accepted")
    assumptions = ["floats inside literals are generated with at most 15 significant digits (text->double exactness is C08's subject)"]

    def cases(self, rng, tier):
        self.expect = {}
        out = []
        N = 1200 if tier == "quick" else 60000
        for _ in range(N):
            s = rand_str(rng)
            if spellable(s):
                e = "'" + s.replace("'", "\\'") + "'"
                line = "search %s n" % wire.s(e)
                self.expect[line] = "OK " + wire.val(s)
                out.append(line)
            v = rand_json(rng)
            e = "`" + json.dumps(v, ensure_ascii=rng.random() < 0.3).replace("`", "\\`") + "`"
            line = "search %s n" % wire.s(e)
            self.expect[line] = "OK " + wire.val(v)
            out.append(line)
            k = rand_str(rng, 5)
            if rng.random() < 0.3:
                k = rng.choice(gen.KEYS)
            spelled = json.dumps(k, ensure_ascii=rng.random() < 0.5)
            if rng.random() < 0.2:
                spelled = '"' + "".join("\\u%04x" % ord(c) if ord(c) < 0x10000 else
                                        "\\u%04x\\u%04x" % (0xd800 + ((ord(c) - 0x10000) >> 10), 0xdc00 + ((ord(c) - 0x10000) & 0x3ff))
                                        for c in k) + '"'
            doc = {k: 1}
            other = k + "x"
            doc[other] = 2
            line = "search %s %s" % (wire.s(spelled), wire.val(doc))
            self.expect[line] = "OK u1"
            out.append(line)
            if k.isascii() and k and (k[0].isalpha() or k[0] == "_") and all(c.isalnum() or c == "_" for c in k):
                line = "search %s %s" % (wire.s(k), wire.val(doc))
                self.expect[line] = "OK u1"
                out.append(line)
        # unquoted identifiers: every first character x every continuation character (exhaustive over [A-Za-z_][A-Za-z0-9_]),
        # and every other ASCII character as a continuation candidate (the model and the code must cut the name at the same place)
        import string
        firsts = string.ascii_letters + "_"
        conts = string.ascii_letters + string.digits + "_"
        for a in firsts:
            for b in conts:
                k = a + b + a
                line = "search %s %s" % (wire.s(k), wire.val({k: 1, a: 2, a + b: 3}))
                self.expect[line] = "OK u1"
                out.append(line)
        # line endings and neighbouring control characters are ordinary content: CR LF, lone CR, LF CR, tabs, NEL, LS/PS, BOM, NUL
        for body in ["a\r\nb", "\r\n", "a\rb", "a\n\rb", "\r\r\n\n", "a\tb", "a\x0bb", "a\x0cb", "a\u0085b", "a\u2028b\u2029c", "\ufeffa", "a\x00b", " a ", "\n", "x\r\n\r\ny",
                     "line1\r\nline2\r\n", "a\u00a0b", "a\u200bb", "e\u0301", "\u00e9"]:
            e = "'" + body + "'"
            line = "search %s n" % wire.s(e)
            self.expect[line] = "OK " + wire.val(body)
            out.append(line)
            line = "search %s %s" % (wire.s("@ == " + e), wire.val(body))
            self.expect[line] = "OK t"
            out.append(line)
            line = "search %s %s" % (wire.s("length(" + e + ")"), "n")
            self.expect[line] = "OK " + wire.val(len(body))
            out.append(line)
            q = json.dumps(body, ensure_ascii=False)
            if all(ord(ch) >= 32 for ch in body):
                line = "search %s %s" % (wire.s(q), wire.val({body: 1, body + "x": 2}))
                self.expect[line] = "OK u1"
                out.append(line)
            lit = "`" + json.dumps(body) + "`"
            line = "search %s n" % wire.s(lit)
            self.expect[line] = "OK " + wire.val(body)
            out.append(line)
            line = "search %s n" % wire.s(lit + " == " + e)
            self.expect[line] = "OK t"
            out.append(line)
        # names that other languages reserve are plain identifiers here: they select the member of that name, in every position
        words = ["true", "false", "null", "nan", "NaN", "inf", "Infinity", "undefined", "and", "or", "not", "in", "if", "else", "e", "E", "_", "__", "x0",
                 "True", "False", "None", "nil", "this", "self", "length", "sort_by", "map", "type", "to_number", "abs", "u0041", "n", "t", "r"]
        for i, w in enumerate(words):
            other = words[(i + 7) % len(words)]
            doc = {w: i + 1, other: {w: [i + 100, {w: "in"}], "z": None}, "z": [{w: True}, {w: False}, {other: 0}]}
            for e, exp in [(w, i + 1), ("%s.%s" % (other, w), [i + 100, {w: "in"}]), ("%s.%s[1].%s" % (other, w, w), "in"), ("[%s, %s.z]" % (w, other), [i + 1, None]),
                           ("{%s: %s}" % (w, w), {w: i + 1}), ("z[?%s].%s" % (w, w), [True]), ("z[*].%s" % w, [True, False]), ("!%s" % w, False),
                           ("%s == `%d`" % (w, i + 1), True), ("%s || z" % w, i + 1), ("(%s)" % w, i + 1), ("@.%s" % w, i + 1), ("type(%s)" % w, "number"),
                           ("*.%s" % w, [[i + 100, {w: "in"}]]), ("to_array(%s)[0]" % w, i + 1)]:
                line = "search %s %s" % (wire.s(e), wire.val(doc))
                self.expect[line] = "OK " + wire.val(exp)
                out.append(line)
        for b in range(0, 128):
            out.append("parse " + wire.s("a" + chr(b) + "b"))
            out.append("parse " + wire.s(chr(b) + "b"))
            out.append("parse " + wire.s("{a" + chr(b) + ": a}"))
        # no character outside ASCII starts or continues an unquoted identifier, whatever Unicode thinks of it (letters, digits, marks, spaces)
        for ch in ["\u00e9", "\u00df", "\u03a9", "\u0436", "\u540d", "\u00b2", "\u0661", "\u00aa", "\u00b5", "\uff21", "\uff10", "\u0301", "\u00a0", "\u2003", "\u200b",
                   "\ufeff", "\u2160", "\u1e9e", "\U0001d400", "\U0001f600", "\u0131", "\u212a", "\u017f", "\u203f", "\u00b7", "\u0085", "\u2028"]:
            for e in [ch, ch + "a", "a" + ch, "a" + ch + "b", "_" + ch, ch + "_1", "a." + ch, ch + ".a", "a." + ch + "b", "[" + ch + "]", "{" + ch + ": a}", "{a: " + ch + "}",
                      "f(" + ch + ")", ch + "(a)", "a" + ch + "(b)", "a[?" + ch + "]", "!" + ch, "a || " + ch, "a." + ch + "[0]", "1" + ch, "a[1" + ch + "]", "a[" + ch + "1]"]:
                out.append("parse " + wire.s(e))
                out.append("search %s %s" % (wire.s(e), wire.val({ch: "marker", ch + "a": 1, "a" + ch: 2, "a": {ch: 3, ch + "b": 4}})))
        L = 4 if tier == "quick" else 6
        small = ["'", "\\", "`", '"', "a", "\n", "u"]
        for n in range(0, L + 1):
            combos = itertools.product(small if n <= 4 else small[:5], repeat=n)
            for c in combos:
                body = "".join(c)
                for q in ("'", "`", '"'):
                    out.append("parse " + wire.s(q + body + q))
                    if n <= 3:
                        out.append("parse " + wire.s(q + body))
        for e in ['"\\ud83d"', '"\\ude00\\ud83d"', '"\\ud83d\\u0041"', '"\\u12"', '"\\q"', '"a\tb"', '"a\nb"', '"\\u0000"', "`01`", "`1.`", "`.5`", "`+1`",
                  "`1e400`", "`-`", "`[1,]`", "`{\"a\":1,}`", "`{a:1}`", "`'a'`", "`nul`", "`true false`", "`\"\\ud83d\\ude00\"`", "` \n1\t`", "``", "` `",
                  "'\\`'", "`\"it\\'s\"`", "'a\\`b'", "`\"a\\`b\"`", "'\\\\''", "'\\\\\\''"]:
            out.append("search %s n" % wire.s(e))
        return out

    def oracle(self, case, iobs):
        exp = self.expect.get(case)
        if exp is not None and iobs != exp:
            return "round trip broken: expected %s, observed %s" % (exp, iobs)
        return None

    def nontrivial(self, case, mobs):
        return mobs.startswith("OK")
