"""C13: compile and search are pure: deterministic, history-independent, non-mutating."""
import framework
import gen
import wire

EXPRS = ["a", "a.b", "to_string(a)", "ceil(v) == `1`", "to_string(@)", "'42'", "`42`", "'[1, 2, 3]'", "a == `[1, 2, 3]`", "'true'", "`true`",
         "type('[1, 2, 3]')", "a[*].b", "sort_by(a, &b)", "abs(a)", "nope(a)", "a[::0]", "length(a)", "a || b", "[a, b]", "{x: a, y: b}", "a[?b > `1`]",
         "max_by(a, &b)", "map(&b, a)", "join(',', a)", "a ==", "a[", "sum(a)", "avg(a)", "keys(@)", "@", "a | [0]", "floor(v)", "to_number('1.0')",
         "`1.0`", "`1`", "a == `1`", "[`1`, `1.0`]", "contains(a, `1.0`)",
         # calls that a given document may or may not reach (an unknown or ill-typed call behind a short-circuit, an empty projection, a filter)
         "a || nope(@)", "b && nope(@)", "a[?b > `5`].nope(@)", "a[*].nope(@)", "[].nope(@)", "nope(@) || a", "a[?b > `1`].abs(b)", "a.b || abs('x')",
         "map(&nope(@), a)", "sort_by(a, &nope(b))", "not_null(a, nope(@))", "a[?nope(@)]", "[a, b || nope(@)]", "{x: a || abs(@)}",
         # the same expression spelled with different leading / surrounding whitespace (offsets differ, meaning does not)
         "  a.b", "\n a.b", "\ta.b ", " abs(a)", "\n  abs(a)", "abs(a) ", "  nope(a)", "\n\n a[::0]", " a ==", "\u00a0a"]
# families that differ only in the field an expression reference names: a stale reference shows in the result
REF_FAMILY = ["max_by(@, &a)", "max_by(@, &b)", "max_by(@, &c)", "min_by(@, &a)", "min_by(@, &b)", "min_by(@, &c)", "sort_by(@, &a)", "sort_by(@, &b)",
              "sort_by(@, &c)", "map(&a, @)", "map(&b, @)", "map(&c, @)", "max_by(@, &a)[0]", "sort_by(@, &c)[*].a", "map(&[a, b], @)", "map(&{x: c}, @)"]
REF_DOCS = [[{"a": 1, "b": 3, "c": 2}, {"a": 2, "b": 2, "c": 3}, {"a": 3, "b": 1, "c": 1}],
            [{"a": "x", "b": "z", "c": "y"}, {"a": "y", "b": "y", "c": "z"}, {"a": "z", "b": "x", "c": "x"}]]
DOCS = [{"a": 1}, {"a": 1.0}, [9007199254740992], [9007199254740993], {"v": 1.0}, {"v": ("d", 0x3ff0000000000001)}, {"a": [1, 2, 3]},
        {"a": [{"b": 2}, {"b": 1}, {"b": 2.0}]}, {"a": [{"b": "x"}, {"b": 1}]}, {"a": "s", "b": None}, None, [1, "a"], {"a": {"b": [1, 2]}},
        {"a": [1, 2.5], "v": 0.5}, {"a": ["x", "y"]}, {"a": -1.5, "v": -0.5}, {"a": 1.0000000000000002}, {"a": [1.0, 2, 3]}]


class P(framework.Prop):
    id = "C13"
    rule = ("hist cases: seeded interleavings (20-120 operations) of compile / clone / search / drop over a pool of 39 expressions (incl. "
            "failing compiles and failing searches, raw-string vs literal spellings of the same text) and 18 documents (incl. pairs that "
            "differ only in number spelling or by one ulp) on the default runtime and a custom one; every search also checks that the "
            "shared input value is unchanged; law on the implementation: equal (runtime, expression text, document) => equal observation "
            "anywhere in any history; non-trivial = a history with at least two searches of the same pair")

    def cases(self, rng, tier):
        out = []
        N = 150 if tier == "quick" else 8000
        for _ in range(N):
            ops = ["new 1", "regb 1"]
            live = {}
            nh = 0
            pool = rng.sample(EXPRS, rng.randint(2, 6))
            docs = rng.sample(DOCS, rng.randint(2, 5))
            for _ in range(rng.randint(20, 120)):
                k = rng.random()
                if k < 0.25 or not live:
                    nh += 1
                    e = rng.choice(pool)
                    r = rng.choice([0, 0, 1])
                    ops.append("compile %d %d %s" % (nh, r, wire.s(e)))
                    live[nh] = (r, e)
                elif k < 0.35:
                    nh += 1
                    h = rng.choice(list(live))
                    ops.append("clone %d %d" % (nh, h))
                    live[nh] = live[h]
                elif k < 0.42:
                    h = rng.choice(list(live))
                    ops.append("drop %d" % h)
                    del live[h]
                else:
                    h = rng.choice(list(live))
                    ops.append("search %d %s" % (h, wire.val(rng.choice(docs))))
            out.append("hist " + " ; ".join(ops))
        # an outcome must not depend on what else was compiled or searched in between: failing searches of every error kind (also the ones
        # built without a position: a non-finite sum), repeated on the same handle, on a clone and on a fresh compile, with other work in between
        big = wire.val({"a": [1e308, 1e308], "b": None})
        for e in ["sum(a)", "avg(a)", "sum(a) || b", "[sum(a)]", "a | sum(@)", "abs(b)", "nope(a)", "a[::0]", "sort_by(a, &b)", "b || nope(@)", "a[?nope(@)]"]:
            for other in ["foo.bar", "a", "sum(a)", "  " + e, "length(@)"]:
                ops = ["compile 1 0 %s" % wire.s(e), "search 1 %s" % big, "compile 2 0 %s" % wire.s(other), "search 1 %s" % big, "search 2 %s" % big,
                       "clone 3 1", "search 3 %s" % big, "drop 2", "compile 4 0 %s" % wire.s(e), "search 4 %s" % big, "search 1 %s" % big,
                       "compile 5 0 %s" % wire.s("a ||"), "search 3 %s" % big, "search 1 %s" % wire.val({"a": [1, 2]}), "search 1 %s" % big]
                out.append("hist " + " ; ".join(ops))
        # churn: compile / search / drop in quick succession, so that freed trees are recycled (a memo keyed by address or by
        # normalised text would return a stale tree)
        M = 60 if tier == "quick" else 3000
        for _ in range(M):
            ops = []
            nh = 0
            for _ in range(rng.randint(6, 30)):
                nh += 1
                e = rng.choice(REF_FAMILY) if rng.random() < 0.8 else rng.choice(EXPRS)
                ops.append("compile %d 0 %s" % (nh, wire.s(e)))
                for _ in range(rng.choice([1, 1, 2])):
                    ops.append("search %d %s" % (nh, wire.val(rng.choice(REF_DOCS))))
                if rng.random() < 0.85:
                    ops.append("drop %d" % nh)
            out.append("hist " + " ; ".join(ops))
        return out

    def oracle(self, case, iobs):
        """purity law on the implementation's own observations"""
        ops = case[len("hist "):].split(" ; ")
        obs = iobs.split(" ; ")
        if len(obs) != len(ops):
            return None
        if "MUTATED" in obs:
            return "a search changed its input document"
        bind = {}
        seen = {}
        compiled = {}
        for op, o in zip(ops, obs):
            t = op.split(" ")
            if t[0] == "compile":
                bind[int(t[1])] = (int(t[2]), t[3]) if o.startswith("OK") else None
                key = (int(t[2]), t[3])
                if compiled.setdefault(key, o) != o:
                    return "compiling %s twice gave %s and %s" % (t[3], compiled[key], o)
            elif t[0] == "clone":
                bind[int(t[1])] = bind.get(int(t[2]))
            elif t[0] == "drop":
                bind.pop(int(t[1]), None)
            elif t[0] == "search":
                b = bind.get(int(t[1]))
                if b is None:
                    continue
                key = (b, " ".join(t[2:]))
                if key in seen and seen[key] != o:
                    return "searching the same document with the same expression gave %s earlier and %s now" % (seen[key], o)
                seen[key] = o
        return None

    def nontrivial(self, case, mobs):
        return mobs.count("OK") >= 3
