"""C07: slices and (negative) indexes."""
import framework
import wire

I32MAX = 2147483647
I32MIN = -2147483648


def py_slice(n, a, b, c):
    return list(range(n))[slice(a, b, c)]


class P(framework.Prop):
    id = "C07"
    rule = ("slice/index cases on arrays of distinct integers: exhaustive small scope (lengths 0..L, bounds in "
            "{omitted, -L-2..L+2, +-(2^31-1), -2^31}, steps in {+-1,+-2,+-3,+-(2^31-1), -2^31}) plus seeded random triples "
            "over the whole i32 range; non-arrays; a case is non-trivial when the selected list is non-empty")
    assumptions = ["array length < 2^31 (the `len as i32` cast)", "step 0 is rejected by the interpreter before slice() is called (covered by the evalast stream of C01)"]
    release_too = True

    def cases(self, rng, tier):
        out = []
        L = 4 if tier == "quick" else 6
        edge = [I32MAX, I32MIN, -I32MAX, I32MAX - 1]
        for n in range(0, L + 1):
            arr = wire.val(list(range(n)))
            bounds = [None] + list(range(-n - 2, n + 3)) + edge
            steps = [1, -1, 2, -2, 3, -3, I32MAX, -I32MAX, I32MIN]
            for a in bounds:
                for b in bounds:
                    for c in steps:
                        out.append("slice %s %s %s %d" % (arr, wire.optint(a), wire.optint(b), c))
            for i in list(range(-n - 3, n + 4)) + [e for e in edge if e != I32MIN]:
                out.append("index %s %d" % (arr, i))
        N = 3000 if tier == "quick" else 300000
        for _ in range(N):
            n = rng.choice([0, 1, 2, 3, 5, 8, 13, 40])
            arr = wire.val(list(range(n)))

            def bound():
                r = rng.random()
                if r < 0.15:
                    return None
                if r < 0.7:
                    return rng.randint(-n - 3, n + 3)
                if r < 0.85:
                    return rng.choice(edge)
                return rng.randint(I32MIN, I32MAX)
            r = rng.random()
            c = rng.choice([1, -1, 2, -2, 3, -3, 7]) if r < 0.6 else (rng.choice(edge) if r < 0.75 else rng.randint(I32MIN, I32MAX))
            if c == 0:
                c = 1
            out.append("slice %s %s %s %d" % (arr, wire.optint(bound()), wire.optint(bound()), c))
        # the same through compile + search: every spelling of the bracket (omitted parts, explicit zeros, both signs), at top level,
        # after a field and inside a projection
        def part(x):
            return "" if x is None else str(x)
        for n in range(0, (4 if tier == "quick" else 6) + 1):
            arr = list(range(n))
            bnds = [None] + list(range(-n - 1, n + 2))
            for a in bnds:
                for b in bnds:
                    for c in [None, 1, -1, 2, -2, 3, -3]:
                        if tier == "quick" and rng.random() < 0.5 and not (a in (0, None) or b in (0, None)):
                            continue
                        br = "[%s:%s%s]" % (part(a), part(b), "" if c is None and rng.random() < 0.5 else ":" + part(c))
                        out.append("search %s %s" % (wire.s(br), wire.val(arr)))
                        if rng.random() < 0.25:
                            out.append("search %s %s" % (wire.s("a" + br), wire.val({"a": arr})))
                        if rng.random() < 0.15:
                            out.append("search %s %s" % (wire.s("[*]" + br), wire.val([arr, arr[::-1], "x"])))
                        if rng.random() < 0.1:
                            out.append("search %s %s" % (wire.s(br + br), wire.val(arr + arr)))
            for i in range(-n - 2, n + 3):
                out.append("search %s %s" % (wire.s("[%d]" % i), wire.val(arr)))
                out.append("search %s %s" % (wire.s("a[%d]" % i), wire.val({"a": arr})))
                out.append("search %s %s" % (wire.s("[*][%d]" % i), wire.val([arr, arr[::-1]])))
        # numerals of several digits (both signs, leading zeros, the 32-bit edges) as index and as every slice part, on arrays long enough to tell them apart
        for n in (13, 32, 120):
            arr = list(range(n))
            nums = [-11, -12, -19, -21, -25, -31, -99, -100, -101, -119, -120, -121, 10, 11, 12, 19, 21, 25, 31, 99, 100, 101, 119, "-011", "007", "-0", "00",
                    2147483647, -2147483647, 1000000007, -1000000007]
            for _ in range(60 if tier == "quick" else 3000):
                a, b, c = [rng.choice(nums) if rng.random() < 0.6 else None for _ in range(3)]
                if c in (0, "-0", "00"):
                    c = 1
                br = "[%s:%s%s]" % (part(a), part(b), "" if c is None else ":" + part(c))
                out.append("search %s %s" % (wire.s(br), wire.val(arr)))
            for i in nums:
                out.append("search %s %s" % (wire.s("[%s]" % i), wire.val(arr)))
                out.append("search %s %s" % (wire.s("a[%s]" % i), wire.val({"a": arr})))
        for d in [[1, 2, 3], [], None, True, 5, "ab", {}, {"a": [1]}, {"a": {"b": 1}}, {"a": "s"}, {"a": None}]:
            for br in ["[::0]", "[1:2:0]", "[:0:0]", "[0::0]", "[-1:-2:0]"]:
                for e in [br, "a" + br, "missing" + br, "@" + br, "a.b" + br, "[*]" + br, "(a || @)" + br, "a" + br + "[0]", "[a" + br + "]", "{k: a" + br + "}"]:
                    out.append("search %s %s" % (wire.s(e), wire.val(d)))
        for v in ["n", "t", 'u5', '"97,98', "{ }", '{ "97 [ u1 ] }']:
            out.append("slice %s 0 1 1" % v)
            out.append("slice %s _ _ -1" % v)
            out.append("index %s 0" % v)
            out.append("index %s -1" % v)
        return out

    def nontrivial(self, case, mobs):
        return mobs.startswith("OK [ ") and mobs != "OK [ ]" or (case.startswith("index") and mobs != "OK n")

    def oracle(self, case, iobs):
        """Python's own list slicing as a second, independent oracle."""
        t = case.split(" ")
        if t[0] == "slice" and t[1] == "[":
            arr, i = wire.unval(t, 1)
            a, b, c = [None if x == "_" else int(x) for x in t[i:i + 3]]
            exp = "OK " + wire.val(arr[slice(a, b, c)])
            if iobs != exp:
                return "Python list[%s:%s:%s] gives %s, implementation gives %s" % (a, b, c, exp, iobs)
        if t[0] == "search":
            import re as _re
            try:
                e = wire.uns(t[1]) if hasattr(wire, "uns") else None
            except Exception:
                e = None
            if _re.search(r"-0", e or ""):
                e = None        # the lexer refuses a minus sign followed by 0 (model and implementation agree on that; not a slicing question)
            m = _re.match(r"^\[(-?\d*):(-?\d*)(?::(-?\d*))?\]$", e or "")
            if m and len(t) > 2 and t[2] == "[":
                arr, _i = wire.unval(t, 2)
                a, b, c = [None if x in ("", None) else int(x) for x in m.groups()]
                if c != 0:
                    exp = "OK " + wire.val(arr[slice(a, b, c)])
                    if iobs != exp:
                        return "Python list[%s:%s:%s] gives %s, the expression %s gives %s" % (a, b, c, exp, e, iobs)
            m = _re.match(r"^\[(-?\d+)\]$", e or "")
            if m and len(t) > 2 and t[2] == "[":
                arr, _i = wire.unval(t, 2)
                n = int(m.group(1))
                exp = "OK " + (wire.val(arr[n]) if -len(arr) <= n < len(arr) else "n")
                if iobs != exp:
                    return "Python list[%d] gives %s, the expression %s gives %s" % (n, exp, e, iobs)
        if t[0] == "index" and t[1] == "[":
            arr, i = wire.unval(t, 1)
            n = int(t[i])
            try:
                exp = "OK " + wire.val(arr[n])
            except IndexError:
                exp = "OK n"
            if iobs != exp:
                return "index %d: expected %s, implementation gives %s" % (n, exp, iobs)
        return None

    def shrink_candidates(self, case):
        t = case.split(" ")
        if t[0] != "slice" or t[1] != "[":
            return
        arr, i = wire.unval(t, 1)
        rest = t[i:i + 3]
        if len(arr) > 0:
            yield "slice %s %s" % (wire.val(arr[:-1]), " ".join(rest))
        for j in range(3):
            if rest[j] not in ("_",):
                z = int(rest[j])
                for cand in ([None] if j < 2 else []) + [z // 2, z - 1 if z > 0 else z + 1]:
                    if j == 2 and (cand is None or cand == 0):
                        continue
                    r2 = list(rest)
                    r2[j] = wire.optint(cand)
                    yield "slice %s %s" % (wire.val(arr), " ".join(r2))
