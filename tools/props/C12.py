"""C12: errors are classified and located truthfully (surface: compile/search errors incl. line, column, rendered message)."""
import framework
import gen
import wire

PREFIXES = ["", " ", "\n", "\n\n  ", "\r", "\r\n ", "a\r.b\r\n.", "a ||\r", "'\r' | ", "é ", "'é\n中' | ", "\"\U0001f600\".", "`\"é\"` && ", "a\n.b\n.", "[\n'é',\n", "a ||\n\t"]
FAILING_CALLS = ["abs(@)\n", "nope(@)\n\n", "a[::0].b", "foo[::0]\n  .bar\n  .baz", "a[::0][0]", "a[::0][?b]", "[::0].a | b", "abs('x')", "abs(a, b)", "abs()", "nope(@)", "length(`1`)", "a[::0]", "sort_by(@, &type(@) == `\"x\"`)", "max_by(@, &@)",
                 "length(abs(foo))", "nope(keys(@))", "abs(foo,\n  to_number(bar))", "join(', ', [abs(`1`), 'x'])", "map(&nope(@), @)",
                 "sum(@)", "avg(@)", "merge(@, `1`)", "not_null()", "sort_by(a, &b)", "min_by(a, &`[1]`)", "[0][::0]", "foo | bar[1:2:0]",
                 "contains(@)", "starts_with(@, `1`)", "to_string(&a)", "keys(a)[0].length(@, @)",
                 "merge(`{}`, `{\"a\": 1}`, `1`)", "merge(`{}`, `{}`, `{}`, 'x')", "merge(`{}`, @)", "merge(`{}`, `{}`, &a)", "merge(`{}`, `{}`, `null`, `{}`)",
                 "merge(`{}`,\n `{}`,\n `[]`)", "not_null(`null`, `null`) | abs(@)", "merge(`{}`, `{}`) | merge(@, @, `true`)", "map(&merge(`{}`, `{}`, @), `[1]`)"]
DOCS = [None, 1, "x", [1, 2], {"a": [{"b": 1}, {"b": "x"}], "foo": -3, "bar": "2"}, [1e308, 1e308], [], [[3, 1], [2]], {"a": 1}]


class P(framework.Prop):
    id = "C12"
    rule = ("failing expressions: mutated sentences (token and character level) with multi-byte characters and newlines placed before the "
            "error point; failing (expression, document) pairs for every runtime error kind incl. nested calls, calls inside exprefs and "
            "step-0 slices, each behind prefixes containing newlines and 2-4 byte characters; observation = class, kind, offset, line, column, "
            "payload; non-trivial = an error is reported")

    def cases(self, rng, tier):
        out = []
        N = 1200 if tier == "quick" else 60000
        for _ in range(N):
            toks = gen.mutate(rng, gen.gen_expr(rng, rng.choice([1, 2, 3])))
            text = gen.render(rng, toks)
            out.append("parse " + wire.s(rng.choice(PREFIXES) + text))
            if rng.random() < 0.3:
                # errors at the end of input, on a last line that is empty or not
                out.append("parse " + wire.s(rng.choice(PREFIXES) + text + rng.choice(["\n", " .\n", " ||\n\n", "\n\n", " [\n", ".\n  "])))
        for pre in PREFIXES:
            for call in FAILING_CALLS:
                for d in DOCS:
                    if rng.random() < (0.35 if tier == "quick" else 1.0):
                        e = pre + call
                        if pre and pre.strip() and not pre.rstrip().endswith(("|", ".", "&&", "||", ",")):
                            e = pre + "| " + call
                        if pre.startswith("["):
                            e = pre + call + "]"
                        out.append("search %s %s" % (wire.s(e), wire.val(d)))
        # the by-functions report a rejected key at their own opening parenthesis, whatever the key expression evaluated on the way
        # (slices, indexes, filters, nested calls, multi-selects: every node kind that carries an offset of its own)
        KEYS_ = ["a[:1]", "a[0:2]", "(@.a[:1])[0]", "a[::2]", "a[0]", "a[-1]", "a[?b]", "a[*]", "a[]", "[a, b]", "{x: a}", "length(a[1:]) > `0`", "a[1:] | length(@) > `0`",
                 "to_array(a[0])", "a[:1][0]", "a.b[:1]", "a[?b][:1]", "keys(@)", "values(@)[:1]", "not_null(a[:1], b)", "a[:1] || b", "a[5:] && b", "!a[:1]", "*", "a.*",
                 "merge(@, @)", "a[:1]\n", "\n a [ : 1 ]", "a[::0]", "a[0][::0]"]
        BYDOCS = [[{"a": [1, 2]}], [{"a": [1, 2], "b": 1}, {"a": ["x"], "b": 2}], [[1, 2], ["a"]], [{"a": [{"b": 1}]}], [{"a": {"b": [1, 2]}}], [{"a": "abc"}, {"a": 1}], [{"a": []}], []]
        for f in ("sort_by", "max_by", "min_by"):
            for k in KEYS_:
                for d in (BYDOCS if tier != "quick" else rng.sample(BYDOCS, 4)):
                    for pre in ("", rng.choice(PREFIXES)):
                        e = "%s(@, &%s)" % (f, k)
                        if pre.startswith("["):
                            e = pre + e + "]"
                        elif pre.strip() and not pre.rstrip().endswith(("|", ".", "&&", "||", ",")):
                            e = pre + "| " + e
                        else:
                            e = pre + e
                        out.append("search %s %s" % (wire.s(e), wire.val(d)))
            for k in KEYS_[:12]:
                out.append("search %s %s" % (wire.s("map(&%s(@, &%s), @)" % (f, k)), wire.val([[{"a": [1, 2]}], [{"a": [3]}]])))
                out.append("search %s %s" % (wire.s("length(%s(@, &%s))" % (f, k)), wire.val([{"a": [1, 2]}, {"a": ["x"]}])))
                out.append("search %s %s" % (wire.s("%s(@, &%s)[0].nope(@)" % (f, k)), wire.val([{"a": [1, 2]}])))
        # Display's location block for arbitrary (expression, line, column): the model of errors.rs's Display against the library
        R = 400 if tier == "quick" else 20000
        alphabet = ["a", "b", "\n", "\n", " ", "\u00e9", "\u4e2d", "\U0001f600", "\r", "^", "."]
        for _ in range(R):
            text = "".join(rng.choice(alphabet) for _ in range(rng.randint(0, 12)))
            nl = text.count("\n")
            line = rng.choice([0, 0, 1, nl, nl + 1, max(nl - 1, 0), rng.randint(0, 6)])
            col = rng.choice([0, 1, 2, 3, 7, rng.randint(0, 20)])
            out.append("render %s %d %d" % (wire.s(text), line, col))
        M = 600 if tier == "quick" else 30000
        for _ in range(M):
            toks = gen.gen_call(rng, 2)
            pre = rng.choice(PREFIXES)
            e = gen.render(rng, toks)
            if pre.startswith("["):
                e = pre + e + "]"
            elif pre.strip() and not pre.rstrip().endswith(("|", ".", "&&", "||")):
                e = pre + "| " + e
            else:
                e = pre + e
            out.append("search %s %s" % (wire.s(e), wire.val(gen.rand_doc(rng, 2))))
        return out

    def oracle(self, case, iobs):
        """A failure of search must be a runtime error: a parse-class error fabricated at search time violates the property
        (the one recorded class is listed as a known finding)."""
        if case.startswith("search ") and iobs.startswith("ERR fabricated"):
            return "search failed with a parse-class error built at search time: %s" % iobs
        return None

    def nontrivial(self, case, mobs):
        return mobs.startswith("ERR") or case.startswith("render ")
