"""C17: cargo features change representation, not meaning (default / sync / specialized / sync+specialized builds)."""
import struct

import framework
import gen
import vlib
import wire

BUILDS = [("sync", ("sync",), False), ("specialized", ("specialized",), True), ("sync+specialized", ("sync", "specialized"), True)]


def f64hex(x):
    return "%016x" % struct.unpack(">Q", struct.pack(">d", x))[0]


def f32hex(x):
    return "%08x" % struct.unpack(">I", struct.pack(">f", x))[0]


RANGES = {"i8": (-128, 127), "i16": (-32768, 32767), "i32": (-2**31, 2**31 - 1), "i64": (-2**63, 2**63 - 1), "isize": (-2**63, 2**63 - 1),
          "u8": (0, 255), "u16": (0, 65535), "u32": (0, 2**32 - 1), "u64": (0, 2**64 - 1), "usize": (0, 2**64 - 1)}


class P(framework.Prop):
    id = "C17"
    rule = ("the same case file through four builds of the harness (default; --features sync; +nightly --features specialized; both): "
            "conv cases for every specially handled input type (serde_json::Value owned/borrowed, Variable/&Variable/Rcvar/&Rcvar, String/&str, "
            "all integer widths at their extremes, f32/f64 incl. values that are not short decimals, unit, bool) and search/parse cases over "
            "compliance and seeded expressions; outputs compared pairwise and with the model (generic path = serde model, specialised path = "
            "lib.rs:190-357 model). Non-trivial = accepted")
    assumptions = ["non-finite floats are not JSON-representable (recorded known finding: NaN/inf error under specialized, null on the generic path)"]

    def cases(self, rng, tier):
        out = []
        for k, (lo, hi) in RANGES.items():
            for v in [lo, hi, 0, 1, -1 if lo < 0 else 2, min(hi, 2**63), min(hi, 2**63 - 1), min(hi, 2**31)] + [rng.randint(lo, hi) for _ in range(6)]:
                if lo <= v <= hi:
                    out.append("conv %s %d" % (k, v))
        for x in [0.1, 1.1, 0.5, -2.25, 3.0, 16777217.5, 1e-40, 3.4e38, 0.0, -0.0, 1e10, 0.3, 123456.789]:
            out.append("conv f32 " + f32hex(x))
            out.append("conv f64 " + f64hex(x))
        for _ in range(40 if tier == "quick" else 4000):
            out.append("conv f32 %08x" % (rng.getrandbits(32) & 0x7f7fffff | (rng.getrandbits(1) << 31)))
            out.append("conv f64 %016x" % (rng.getrandbits(64) & 0x7fefffffffffffff | (rng.getrandbits(1) << 63)))
        for h in ["7f800000", "ff800000", "7fc00000"]:
            out.append("conv f32 " + h)
        for h in ["7ff0000000000000", "fff0000000000000", "7ff8000000000000"]:
            out.append("conv f64 " + h)
        out += ["conv unit", "conv bool t", "conv bool f"]
        # 128-bit integers are not specially handled and the generic route refuses them: the same refusal in every build, whatever the value
        for v in [0, 7, -7, 255, 2**31, 2**63 - 1, 2**63, 2**64 - 1, 2**64, -2**63, -2**63 - 1, 2**127 - 1, -2**127]:
            out.append("conv i128 %d" % v)
            if v >= 0:
                out.append("conv u128 %d" % v)
        out.append("conv u128 %d" % (2**128 - 1))
        N = 300 if tier == "quick" else 20000
        for _ in range(N):
            d = gen.rand_doc(rng, 3)
            out.append("conv json " + wire.val(d))
            out.append("conv var " + wire.val(d))
            out.append("conv str " + wire.s(gen.rand_string(rng, 6)))
        # neighbours that are equal under the library's tolerant number equality but are different values: every element keeps its own value
        near = [[0.3, 0.30000000000000004], [2**53, 2**53 + 1], [1.0, 1.0000000000000002], [1, 1.0], [1.0, 1], [-0.0, 0], [0, -0.0, 0.0], [2**63, 2**63 + 1, 2**63 + 2],
                [1e300, 1.0000000000000002e300], [5e-324, 0.0], ["a", "a"], [[1], [1.0]], [[0.3], [0.30000000000000004]], [None, None, 0], [True, 1], [{"a": 1}, {"a": 1.0}]]
        for v in near + [[x] for x in near] + [{"a": x, "b": [x, x]} for x in near[:8]]:
            out.append("conv json " + wire.val(v))
            out.append("conv var " + wire.val(v))
        for v in [2**64 - 1, 2**63, -2**63, [2**64 - 1, {"a": 2**63}], 1.5, {"é": [None, True]}]:
            out.append("conv json " + wire.val(v))
            out.append("conv var " + wire.val(v))
        cs = [c for c in gen.compliance_cases() if gen.doc_ok(c[1])]
        M = 400 if tier == "quick" else len(cs)
        for f, given, e, c in (rng.sample(cs, M) if M < len(cs) else cs):
            out.append("search %s %s" % (wire.s(e), wire.val(given)))
        for _ in range(M):
            toks = gen.gen_expr(rng, 3)
            out.append("search %s %s" % (wire.s(gen.render(rng, toks)), wire.val(gen.rand_doc(rng, 3))))
        self.lines = out
        return out

    def extra(self, ctx):
        out = []
        base = vlib.run_exe(ctx["bins"][0][1], self.lines)
        n = 0
        for name, feats, nightly in BUILDS:
            exe, log = vlib.build_harness(features=feats, nightly=nightly)
            if exe is None:
                out.append(("broken", {"name": "build:%s does not compile: %s" % (name, log[-400:].replace("\n", " "))}))
                continue
            obs = vlib.run_exe(exe, self.lines)
            special = "specialized" in feats
            model = None
            if special:
                ml = [("convspec" + l[4:]) if l.startswith("conv ") else l for l in self.lines]
                model = vlib.run_exe(ctx["driver"], ml, unlimited_stack=True)
            for i, (l, a, b) in enumerate(zip(self.lines, base, obs)):
                n += 1
                bad = None
                if a != b:
                    bad = "build %s gives %s, the default build gives %s" % (name, b, a)
                elif model is not None and model[i] not in ("UNMODELLED",) and framework.canon(model[i]) != framework.canon(b):
                    bad = "build %s gives %s, the model of the specialised path gives %s" % (name, b, model[i])
                if bad:
                    k = framework.known_match(ctx["known"], self.id, l, b)
                    if k:
                        out.append(("count", {"name": "known:" + k["id"], "n": 1}))
                    else:
                        out.append(("violation", {"case": l, "expected": a, "observed": b, "detail": bad}))
        out.append(("count", {"name": "cross_build_comparisons", "n": n}))
        return out

    def nontrivial(self, case, mobs):
        return mobs.startswith("OK")
