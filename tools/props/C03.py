"""C03: compile accepts exactly the JMESPath language (surface: jmespath::parse)."""
import framework
import gen
import wire


class P(framework.Prop):
    id = "C03"
    rule = ("parse cases: seeded grammar-directed sentences (depth<=5, random whitespace), near misses one token mutation away "
            "(delete/insert/duplicate/swap/replace), token soup, lexical edge cases (numbers at the i32 edge, '-0', quoted forms, "
            "unterminated delimiters, non-ASCII), all compliance expressions; non-trivial = accepted sentence")

    def spec_line(self, case):
        """the reference parser decides sentencehood and the tree"""
        if case.startswith("parse "):
            return "refparse " + case[len("parse "):]
        return None

    def spec_equal(self, sobs, iobs):
        if sobs.startswith("ERR parse") and iobs.startswith("ERR parse"):
            return True
        return framework.canon(sobs) == framework.canon(iobs)

    def oracle(self, case, iobs):
        """One lexical rule checked on its own (both parsers share the lexer, so the reference parser cannot disagree about it):
        number = ["-"] 1*digit, so an index or slice part spelled -0 / -0<digits> is a numeral of the language."""
        import re as _re
        if not case.startswith("parse "):
            return None
        try:
            text = wire.uns(case.split(" ")[1])
        except Exception:
            return None
        if _re.fullmatch(r"[a-z]*\[(-?\d*:){0,2}-0\d*(:-?\d*){0,2}\]", text) and text.count(":") <= 2 and iobs.startswith("ERR parse"):
            return "the numeral after '[' is in the language (number = [\"-\"] 1*digit) but the expression %s is refused: %s" % (text, iobs[:40])
        return None

    def cases(self, rng, tier):
        out = []
        N = 3000 if tier == "quick" else 150000
        for _ in range(N):
            toks = gen.gen_expr(rng, rng.choice([1, 2, 3, 4, 5]))
            out.append("parse " + wire.s(gen.render(rng, toks)))
            m = gen.mutate(rng, toks)
            out.append("parse " + wire.s(gen.render(rng, m)))
            if rng.random() < 0.3:
                out.append("parse " + wire.s(gen.render(rng, gen.mutate(rng, m))))
        for _ in range(N // 2):
            # character-level mutation of a sentence: insert / replace one character
            text = gen.render(rng, gen.gen_expr(rng, rng.choice([1, 2, 3])))
            if text:
                i = rng.randrange(len(text) + 1)
                ch = rng.choice(CHARS)
                text = text[:i] + ch + (text[i:] if rng.random() < 0.6 else text[i + 1:])
            out.append("parse " + wire.s(text))
        for _ in range(N // 4):
            n = rng.randint(1, 7)
            out.append("parse " + wire.s(gen.render(rng, [rng.choice(gen.SOUP) for _ in range(n)])))
        for e in LEX:
            out.append("parse " + wire.s(e))
        # empty and one-token bracket / brace / parenthesis bodies (with and without inner white space) in every position a bracket can take
        BODIES = ["", " ", "\n", "\t ", "?", " ?", "? ", "*", " * ", ":", " : ", "0", " 0 ", ",", "a,", ",a", "a", " a ", "&a", "a:b", "a:", ":b", "?a", "? a ", "-", "-1", "- 1", "1 2"]
        OPEN = [("[", "]"), (".[", "]"), ("{", "}"), (".{", "}"), ("(", ")"), ("f(", ")"), (".f(", ")"), ("[?", "]"), (".[?", "]"), ("[ ", "]"), (". [", "]")]
        PRE = ["", "a", "a.b", "a[*]", "a[]", "*", "a[0]", "a[?b]", "a |", "!", "a ||", "[", "{k:", "f("]
        POST = {"": "", "[": "]", "{k:": "}", "f(": ")"}
        for pre in PRE:
            for (o, c) in OPEN:
                for b in BODIES:
                    if tier != "quick" or rng.random() < 0.5:
                        out.append("parse " + wire.s(pre + o + b + c + POST.get(pre, "")))
                        if rng.random() < 0.3:
                            out.append("parse " + wire.s(pre + o + b + c + rng.choice([".c", "[0]", " | d", "[*]", ".[e]"]) + POST.get(pre, "")))
        for f, given, e, c in gen.compliance_cases():
            out.append("parse " + wire.s(e))
        return out

    def nontrivial(self, case, mobs):
        return mobs.startswith("OK")


CHARS = ["\u00e9", "\u00b2", "\u0661", "\u4e2d", "\u00a0", "\u03b2", "\U0001f600", "\u2028", "_", "-", "0", "9", "a", "Z", "$", "%", "~", "^", "+", "/", ";", "?",
         "\\", "\"", "'", "`", " ", "\t", "\n", "\r", "\x0b", "\x00", "\x7f", "=", "<", ">", "!", "&", "|", ".", ",", ":", "(", ")", "[", "]", "{", "}", "*", "@", "#"]

LEX = ["a[-0]", "a[-01]", "[-0:]", "a[1:-0]", "a[::-01]", "caf\u00e9", "a\u00b2", "a\u0661", "_\u00e9", "a.b\u00e4r", "\u00e9a", "", " ", "a", "-", "-0", "-1", "-01", "a[-0]", "a[2147483647]", "a[2147483648]", "a[-2147483647]", "a[-2147483648]", "a[00]", "a[01]",
       "a[1:2:3]", "a[1:2:3:4]", "a[::]", "a[:]", "a[::0]", "a[ 1 ]", "a[ ]", "[ ]", "[]", "a[ * ]", "a [*]", "a[*", "a[?b", "a[?]", "[?]",
       "'", "'a", "'a\\'", "'a\\'b'", "'\\\\'", "''", "`", "`1", "`1`", "`a`", "`\"a\"`", "`{\"a\":1}`", "`[1,`", "`1``", "`\\``", "` 1 `", "`1 2`",
       "\"", "\"a", "\"a\"", "\"\"", "\"a\\\"b\"", "\"\\u0061\"", "\"\\ud83d\\ude00\"", "\"\\ud83d\"", "\"\\x\"", "\"a\nb\"", "\"a\"(b)", "a.\"b\"",
       "=", "a=b", "a==b", "a===b", "!", "!a", "!!a", "a!", "a!=b", "&a", "&&a", "a&b", "a&&&b", "|", "a|", "|a", "a||", "a|||b", "a | | b",
       "@", "@.a", "a.@", "@@", "*", "**", "*.*", "a.*.b", "a.*[0]", "a.[b]", "a.[]", "a.{b:c}", "a.{}", "a.{b}", "{a:b}", "{a:b,}", "{a:b c:d}",
       "{\"a\":b}", "{1:b}", "{a:}", "[a,b]", "[a b]", "[a,]", "[,a]", "[a,,b]", "f()", "f(a)", "f(a,b)", "f(a b)", "f(a,)", "f(,a)", "f(&a)", "f(&&a)",
       "f(&a,&b)", "f(a", "f)", "(a)", "(a", "a)", "()", "(a)(b)", "(\"f\")(a)", "a.b(c)", "a.f(b).c", "a.&b", "[&a]", "a[*][b,c]", "a[*].[b,c].d",
       "a[*].{b:c}.b", "a[].b[0]", "a[?b][0]", "a[0][1]", "a[0].b", "a.b[0]", "!a.b", "!a[0]", "a || b && c", "a && b || c", "a == b == c",
       "a < b || c", "a | b | c", "a.b | c.d", "a[*].b | [0]", "a[*] || b", "a[*] , b", "é", "a.é", "\"é\"", "a\u00a0b", "#", "a#", "\t a \n", "a\r\n.b",
       "a.0", "a.`1`", "a.'b'", "'a'.b", "`1`.a", "-1.a", "1", "12", "a[1]b", "a b", "a.b c", "0", "a..b", ".a", "a.", "a[", "a]", "{", "}", "[?a==`1`]",
       "a[?b==`1`].c", "a[? b ]", "[*]", "[*].a", "[0]", "[0:1]", "[?a]", "*.a", "a.*", "a[*][0]", "a[*][0].b", "a[][]", "a[]|[]", "!(a)", "!(a||b)", "(!a)", "a.(b)", "a.(b||c)"]
