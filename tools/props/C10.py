"""C10: equality and ordering operators."""
import struct

import framework
import gen
import wire


def bits(x):
    return struct.unpack(">Q", struct.pack(">d", x))[0]


def nudge(x, k):
    b = max(0, bits(x) + k)
    return ("d", b)


ZEROS = [0, 0.0, -0.0, ("d", 1), ("d", 0x8000000000000001)]


def rand_pair(rng):
    r = rng.random()
    if r < 0.06:
        return rng.choice(ZEROS), rng.choice(ZEROS)
    if r < 0.25:
        a = gen.rand_doc(rng, 3)
        return a, a
    if r < 0.4:
        x = rng.choice([0.71, 1.0, 1e10, 3.5, 1e-300, 5e-324, 0.1, 2.0**53, 123456.789])
        return ("d", bits(x)), nudge(x, rng.choice([-3, -2, -1, 1, 2, 3, 4, 1000]))
    if r < 0.55:
        n = rng.choice([0, 1, 2, 2**53, 2**53 + 1, 2**63, 2**64 - 1, -2**63, -1, 10])
        return n, rng.choice([float(n), n + 1 if n < 2**64 - 1 else n - 1, float(n) + 0.5, n])
    if r < 0.7:
        return gen.rand_number(rng), gen.rand_number(rng)
    return gen.rand_doc(rng, 2), gen.rand_doc(rng, 2)


OPS = ["eq", "ne", "lt", "le", "gt", "ge"]


class P(framework.Prop):
    id = "C10"
    rule = ("cmp cases: value pairs over all type pairings, nested containers, int/float spellings of one number, adjacent doubles "
            "around the tolerance boundary, 2^53/2^63/2^64 edges; each pair with all six operators and both argument orders; "
            "algebraic laws (reflexivity, symmetry, != is negation, ordering only on numbers, <= is < or exact-equal) evaluated on the implementation")

    def cases(self, rng, tier):
        out = []
        N = 700 if tier == "quick" else 60000
        self.pairs = [rand_pair(rng) for _ in range(N)]
        for a, b in self.pairs:
            for op in OPS:
                out.append("cmp %s %s %s" % (op, wire.val(a), wire.val(b)))
                out.append("cmp %s %s %s" % (op, wire.val(b), wire.val(a)))
        # the operators through compile + search, with one and the same stored value on both sides (a shared value is not a special case)
        SYM = {"eq": "==", "ne": "!=", "lt": "<", "le": "<=", "gt": ">", "ge": ">="}
        self.same = {}
        vals = [None, True, False, 0, 1, -1, 1.5, -0.0, 2**53 + 1, 2**64 - 1, -2**63, "", "abc", "é", [], [1], [1, "a", None], {}, {"k": 1}, {"k": [1, {"z": None}]}, [[]], [None]]
        for _ in range(20 if tier == "quick" else 2000):
            vals.append(gen.rand_doc(rng, 2))
        for v in vals:
            isnum = isinstance(v, (int, float)) and not isinstance(v, bool)
            for op, sym in SYM.items():
                exp = {"eq": "OK t", "ne": "OK f"}.get(op, ("OK t" if op in ("le", "ge") else "OK f") if isnum else "OK n")
                for e, d in [("a %s a" % sym, {"a": v}), ("@ %s @" % sym, v), ("a.b %s a.b" % sym, {"a": {"b": v}}), ("a[0] %s a[0]" % sym, {"a": [v]}),
                             ("a %s b" % sym, {"a": v, "b": v}), ("[a, a][0] %s a" % sym, {"a": v}), ("(a) %s (a || a)" % sym, {"a": v})]:
                    if e.startswith("(a)") and not v and v != 0:
                        continue
                    line = "search %s %s" % (wire.s(e), wire.val(d))
                    if not (e.startswith("(a)") and v in (0, 0.0)):
                        self.same[line] = exp
                    out.append(line)
            line = "search %s %s" % (wire.s("[?@ >= @] | length(@)"), wire.val([v, v, 1]))
            out.append(line)
        # operands given as literals, as fields, and mixed: where an operand comes from does not change the comparison (nor its direction)
        import json as _json
        def lit(x):
            return "`" + _json.dumps(x).replace("`", "\\`") + "`"
        sub = self.pairs[:(120 if tier == "quick" else 6000)] + [(1, 2), (2, 1), (3, 10), (10, 3), (-1, 1), (1.5, 1), (0, -0.0), ("a", "b"), ("b", "a"), (None, 1), (1, None), ([1], [2]), (True, False)]
        for a, b in sub:
            for op, sym in SYM.items():
                d = wire.val({"l": a, "r": b})
                for e in ["%s %s %s" % (lit(a), sym, lit(b)), "l %s %s" % (sym, lit(b)), "%s %s r" % (lit(a), sym), "l %s r" % sym,
                          "[%s %s %s]" % (lit(a), sym, lit(b)), "!(%s %s %s)" % (lit(a), sym, lit(b))]:
                    out.append("search %s %s" % (wire.s(e), d))
            out.append("search %s %s" % (wire.s("[?@ == @] | length(@)"), wire.val([v, v, 1])))
        return out

    def oracle(self, case, iobs):
        exp = getattr(self, "same", {}).get(case)
        if exp is not None and iobs != exp:
            return "a value compared with itself: expected %s, observed %s" % (exp, iobs)
        return None

    def nontrivial(self, case, mobs):
        return mobs in ("OK t", "OK f")

    def extra(self, ctx):
        """The laws, evaluated on the implementation's own observations."""
        import vlib
        exe = ctx["bins"][0][1]
        lines = []
        for a, b in self.pairs:
            wa, wb = wire.val(a), wire.val(b)
            for op in OPS:
                lines.append("cmp %s %s %s" % (op, wa, wb))
            lines.append("cmp eq %s %s" % (wb, wa))
            lines.append("cmp eq %s %s" % (wa, wa))
        obs = vlib.run_exe(exe, lines)
        out = []
        n = 0
        for k, (a, b) in enumerate(self.pairs):
            eq, ne, lt, le, gt, ge, eq_sym, eq_refl = obs[8 * k:8 * k + 8]
            case = lines[8 * k]
            both_num = all(isinstance(x, (int, float)) and not isinstance(x, bool) or (isinstance(x, tuple) and x[0] == "d") for x in (a, b))
            bad = None
            if eq_refl != "OK t":
                bad = "== not reflexive: %s" % eq_refl
            elif eq != eq_sym:
                bad = "== not symmetric: %s vs %s" % (eq, eq_sym)
            elif {eq, ne} != {"OK t", "OK f"}:
                bad = "!= is not the negation of ==: %s %s" % (eq, ne)
            elif both_num and not all(o in ("OK t", "OK f") for o in (lt, le, gt, ge)):
                bad = "ordering on two numbers is not boolean: %s %s %s %s" % (lt, le, gt, ge)
            elif not both_num and not all(o == "OK n" for o in (lt, le, gt, ge)):
                bad = "ordering on a non-number pair is not null: %s %s %s %s" % (lt, le, gt, ge)
            elif both_num and (lt == "OK t") + (gt == "OK t") > 1:
                bad = "a<b and a>b both hold"
            elif both_num and (le == "OK t") != (gt == "OK f"):
                bad = "a<=b is not the negation of a>b"
            elif both_num and (ge == "OK t") != (lt == "OK f"):
                bad = "a>=b is not the negation of a<b"
            n += 1
            if bad:
                out.append(("violation", {"case": case, "expected": "law", "observed": " ".join([eq, ne, lt, le, gt, ge]), "detail": bad}))
        out.append(("count", {"name": "laws_checked_on_impl", "n": n}))
        return out
