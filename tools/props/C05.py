"""C05: compile and search are total (no panic, abort or hang), in debug and release builds."""
import framework
import gen
import wire

EDGE = ["2147483647", "-2147483647", "2147483646", "2147483648", "-2147483648", "-2147483649", "4294967296", "99999999999999999999", "0", "-1", "1"]
DOCS = [[1, 2, 3], [], {"a": [1, 2, 3], "b": "x"}, None, "abc", [[1, [2]], [3]], {"a": {"b": {"c": [1, 2, {"d": None}]}}}, [1e308, 1e308], [0.5, -0.0, 2**64 - 1, -2**63]]


def ladders(depth):
    a = []
    a.append("(" * depth + "a" + ")" * depth)
    a.append("!" * depth + "a")
    a.append("[" * depth + "a" + "]" * depth)
    a.append("a" + ".a" * depth)
    a.append("a" + "||a" * depth)
    a.append("a" + "[*]" * depth)
    a.append("a" + "[0]" * depth)
    a.append("a" + "[]" * depth)
    a.append("a" + "[?a]" * depth)
    a.append("to_array(" * depth + "@" + ")" * depth)
    a.append("{a:" * depth + "@" + "}" * depth)
    a.append("`" + "[" * min(depth, 120) + "]" * min(depth, 120) + "`")
    a.append("a" + "|a" * depth)
    a.append("a" + "==a" * depth)
    a.append("&" * depth + "a")
    return a


class P(framework.Prop):
    id = "C05"
    release_too = True
    impl_timeout = 60
    rule = ("hostile inputs through compile+search in child processes with a wall-clock limit, debug (overflow checks on) and release builds: "
            "numeric tokens at the 32-bit edges in every index/slice position, unterminated and malformed quoted forms with multi-byte "
            "characters around every length 0..48, arbitrary Unicode, token/character mutations of sentences, nesting ladders of 15 shapes "
            "up to depth 150 (quick) / 400 (thorough), self-applied expression references; a case is non-trivial when it is not a parse error at offset 0")
    assumptions = ["nesting beyond the recorded known-finding depth and self-applied expression references are listed known findings",
                   "documents are handed over as values; JSON text depth is C08's subject"]

    def cases(self, rng, tier):
        out = []
        docs = [wire.val(d) for d in DOCS]
        for a in EDGE:
            for tpl in ["a[%s]", "[%s]", "a[%s:]", "a[:%s]", "a[::%s]", "a[%s:%s:%s]", "a[*][%s]", "a[%s][%s]", "@[%s:%s]", "a[1:%s:%s]", "a[-%s]",
                        "[::%s]", "[%s::%s]", "a[?@[%s]]", "[a[%s], @[::%s]]"]:
                n = tpl.count("%s")
                for b in (EDGE if n > 1 else [a])[: (3 if tier == "quick" else len(EDGE))]:
                    e = tpl % tuple(([a, b, a][:n]))
                    out.append("search %s %s" % (wire.s(e), docs[0]))
                    out.append("search %s %s" % (wire.s(e), docs[2]))
        for q in ("'", '"', "`"):
            for n in range(0, 49):
                for fill in ("a", "é", "名", "\U0001f600", "\\"):
                    body = "a" * n + fill * 4
                    out.append("parse " + wire.s(q + body))
                    out.append("parse " + wire.s("foo." + q + body))
                    out.append("parse " + wire.s(q + body + q))
        N = 1500 if tier == "quick" else 100000
        for _ in range(N):
            toks = gen.gen_expr(rng, rng.choice([1, 2, 3, 4]))
            for _ in range(rng.randint(0, 2)):
                toks = gen.mutate(rng, toks)
            text = gen.render(rng, toks)
            if rng.random() < 0.3 and text:
                i = rng.randrange(len(text) + 1)
                text = text[:i] + rng.choice(["é", "١", "-٣", "\x00", "퟿", "\U0010ffff", "-", "`", "'", '"', "\\"]) + text[i:]
            out.append("search %s %s" % (wire.s(text), rng.choice(docs)))
        D = [1, 2, 10, 50, 150] if tier == "quick" else [1, 2, 10, 50, 150, 250, 400]
        for d in D:
            for e in ladders(d):
                out.append("search %s %s" % (wire.s(e), docs[6]))
        for e in ["to_array(&map(@[0], [@])) | map(@[0], [@])", "[&map(@[0], [@])] | map(@[0], [@])", "map(&map(@, @), @)", "sort_by(@, &sort_by(@, &@))",
                  "max_by(@, &@)", "sort(@)", "sort_by(@, &@)", "join('', @)", "sum(@)", "avg(@)", "min(@)", "abs(@[0])", "merge(@)", "length(@)", "reverse(@)"]:
            for d in docs:
                if "to_array(&map" in e or e.startswith("[&map"):
                    continue
                out.append("search %s %s" % (wire.s(e), d))
        # builtins on hostile data: numerals a float parser accepts but JSON does not, overflowing numerals, and long arrays
        # of nearly equal / duplicate / huge numbers (sorting routines check their comparator on slices of more than 20 elements)
        for t in ["inf", "-inf", "+inf", "Inf", "INF", "infinity", "-Infinity", "nan", "NaN", "-nan", "1e999", "-1e999", "1e-999", "1E400", "0x10", "1_000",
                  " 1", "1 ", "+1", ".5", "5.", "1e", "1e+", "-", "--1", "", "1.0.0", "01", "-0", "1e308", "1.7976931348623159e308", "١٢٣", "1\u0000",
                  "9223372036854775808", "-9223372036854775809", "18446744073709551616", "true", "null", "[1]", "\"1\""]:
            for e in ["to_number(@)", "to_number(to_string(@))", "[to_number(@)] | sum(@)", "to_number(@) > `0`"]:
                out.append("search %s %s" % (wire.s(e), wire.val(t)))
        base = [1.0 + k * 2.220446049250313e-16 for k in range(0, 40)]
        arrays = [base[:24], base[:33][::-1], [base[(7 * k) % 29] for k in range(29)], [0.1 * k for k in range(25)] + [0.30000000000000004, 0.3],
                  [2**53 + k for k in range(24)], [9007199254740993, 9007199254740992.0] * 12, [1, 1.0] * 11 + [1.0000000000000002], [-0.0, 0.0] * 12,
                  [5e-324 * k for k in range(23)], [1e308, -1e308] * 11 + [1.7976931348623157e308], ["a" * (k % 3) + "b" for k in range(25)],
                  [k % 3 for k in range(41)], [[k % 2] for k in range(22)], [{"k": base[k % 24]} for k in range(26)], [{"k": "x" * (k % 4)} for k in range(23)]]
        for _ in range(6 if tier == "quick" else 200):
            n = rng.randint(21, 60)
            arrays.append([1.0 + rng.randint(0, 6) * 2.220446049250313e-16 for _ in range(n)])
            arrays.append([rng.choice([2**53, 2**53 + 1, 2**53 + 2, float(2**53), 2**63, 2**64 - 1, -2**63]) for _ in range(n)])
            arrays.append([{"k": 1.0 + rng.randint(0, 5) * 2.220446049250313e-16, "i": i} for i in range(n)])
        for arr in arrays:
            d = wire.val(arr)
            for e in ["sort(@)", "sort_by(@, &@)", "sort_by(@, &k)", "max(@)", "min(@)", "max_by(@, &@)", "min_by(@, &k)", "sum(@)", "avg(@)", "reverse(sort(@))",
                      "sort(@)[0] == min(@)", "[?@ == `1`]", "contains(@, `1`)", "join(',', @)", "map(&abs(@), @)", "map(&ceil(@), @)", "map(&floor(@), @)"]:
                out.append("search %s %s" % (wire.s(e), d))
        return out

    def nontrivial(self, case, mobs):
        return not mobs.startswith("ERR parse 0 ")
