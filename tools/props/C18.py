"""C18: the jp command-line tool reports exactly what the library computes."""
import hashlib
import os
import shutil
import subprocess
import tempfile

import framework
import gen
import vlib
import wire


def build_jp():
    """Builds jp from a scratch copy of /repo/jmespath-cli (its Cargo.lock pins crates that are not available offline)."""
    scratch = tempfile.mkdtemp(prefix="verif-jp-", dir="/var/tmp")
    try:
        dst = os.path.join(scratch, "jmespath-cli")
        shutil.copytree("/repo/jmespath-cli", dst, ignore=shutil.ignore_patterns("target", "Cargo.lock"))
        toml = open(os.path.join(dst, "Cargo.toml")).read().replace('path = "../jmespath"', 'path = "/repo/jmespath"')
        open(os.path.join(dst, "Cargo.toml"), "w").write(toml + "\n[workspace]\n")
        tdir = os.path.join(vlib.CACHE, "target-cli")
        rc, out = vlib.sh(["cargo", "build", "--offline"], cwd=dst, env={"CARGO_TARGET_DIR": tdir}, timeout=1800)
        if rc != 0:
            return None, out
        exe = os.path.join(vlib.CACHE, "jp")
        shutil.copy(os.path.join(tdir, "debug", "jp"), exe)
        return exe, out
    finally:
        shutil.rmtree(scratch, ignore_errors=True)


EXPRS = ["a", "a.b", "a[0]", "@", "a[*].b", "length(a)", "a ||", "abs(a)", "nope(a)", "a[::0]", "'é\U0001f600'", "`\"q\\\"uote\\n\"`", "keys(@)",
         "sort_by(a, &b)", "[a, b]", "{x: a}", "a | [0]", "join(`\"\\t\"`, a)", "to_string(@)", "`18446744073709551615`", "`1.5`", "`[]`", "`{}`",
         "a.\"é\"", "", "  ", "a b", "\"unterminated", "sum(a)", "a[?b > `1`].b", "type(a)", "@.*", "`null`", "`\"\"`", "'line1\nline2'", "'C:\\dir'", "'\"q\"'"]
INPUTS = ['{"a": 1}', '{"a": {"b": [1, 2, {"c": null}]}}', '{"a": [{"b": 2}, {"b": 1}]}', '{"a": "line1\\nline2\\t\\"q\\"\\\\"}', '{"a": ["x", "y"]}',
          '{"a": -3.5e10, "é": "ü"}', '[1, 2, 3]', 'null', '"s"', '{"a": [1e308, 1e308]}', '{"a": 18446744073709551615}', '{"a": []}', '{"a": {}}',
          '{"a": 1', '', 'not json', '[1, 2,]', '{"a": "\\ud800"}', ' \n {"a" : "x"} \n', '{"a":{"b":"\\u00e9\\ud83d\\ude00"}}', '{"a": 0.1, "b": 1E+2}']
# one complete document followed by more text: rejected by the library's reader (only whitespace may follow)
TRAILING = ['{"a": 1} garbage', '1 2', '[1] [2]', '{"a": 1}\n{"a": 2}\n', '{"a": 1}]', '{"a": "x"} \n\t ', '"s" "t"', 'null null', '{"a": 1},']
FLAGS = ["-", "u", "a", "ua"]


class P(framework.Prop):
    id = "C18"
    rule = ("invocations of the real jp binary (built from /repo/jmespath-cli on every run): flag sets {none, -u, --ast, both} x expressions "
            "(valid, invalid, failing at run time, non-ASCII, given as argument or through -e files incl. missing ones) x inputs (valid/invalid "
            "JSON from stdin or -f files incl. missing paths and directories); observation = exit code, stdout bytes, stderr emptiness; "
            "compared with the model (Cli.v) and, for --ast, with the library's own tree dump. Non-trivial = exit 0")
    assumptions = ["clap's argument parsing, EPIPE on stdout and file-system errors beyond missing/unreadable files are not modelled",
                   "floats in results are printed through the modelled shortest-digit printer (validated in C08)"]

    def cases(self, rng, tier):
        out = []
        N = 450 if tier == "quick" else 20000
        combos = [(f, e, i) for f in FLAGS for e in EXPRS for i in INPUTS]
        for f, e, i in rng.sample(combos, min(N, len(combos))):
            out.append("cli %s %s %s" % (f, wire.s(e), wire.s(i)))
        for f in FLAGS:
            for i in TRAILING:
                for e in ("a", "@", "a ||"):
                    out.append("cli %s %s %s" % (f, wire.s(e), wire.s(i)))
        for f in FLAGS:
            for e in EXPRS[:24]:
                out.append("cli %s %s _" % (f, wire.s(e)))          # unreadable input
            for i in INPUTS[:10]:
                out.append("cli %s _ %s" % (f, wire.s(i)))          # unreadable expression file
        for _ in range(60 if tier == "quick" else 5000):
            e = gen.render(rng, gen.gen_expr(rng, 3))
            d = gen.rand_doc(rng, 3)
            import json
            if gen.doc_ok(d):
                out.append("cli %s %s %s" % (rng.choice(FLAGS), wire.s(e), wire.s(json.dumps(d, ensure_ascii=rng.random() < 0.5))))
        return out

    def run_impl(self, exe, lines):
        if not hasattr(self, "jp"):
            self.jp, log = build_jp()
            if self.jp is None:
                return ["BUILDFAIL"] * len(lines)
        tmp = tempfile.mkdtemp(prefix="verif-jp-run-", dir="/var/tmp")
        out = []
        try:
            asts = {}
            for n, l in enumerate(lines):
                t = l.split(" ")
                flags, e, i = t[1], t[2], t[3]
                h = int(hashlib.md5(l.encode()).hexdigest(), 16)
                args = [self.jp]
                if "u" in flags:
                    args.append("-u" if h & 1 else "--unquoted")
                if "a" in flags:
                    args.append("--ast")
                stdin = b""
                BAD_UTF8 = [b'{"a":"x\xffy"}', b'\xff', b'{"a": "\xc3"}', b'{"a": "\xed\xa0\x80"}', b'{"a": 1}\n\xfe', b'{"\x80": 1, "a": 2}', b'\xef\xbb\xbf\xff{"a": 1}', b'"\xf8\x88\x80\x80\x80"']
                if i == "_":
                    # input that cannot be read as text: a missing path, a directory, a file or a stream that is not valid UTF-8
                    v = (h >> 6) % 4
                    if v == 0:
                        args += ["-f", os.path.join(tmp, "missing-%d.json" % n)]
                    elif v == 1:
                        args += ["-f", tmp]
                    elif v == 2:
                        p = os.path.join(tmp, "bad-%d.json" % n)
                        open(p, "wb").write(BAD_UTF8[(h >> 10) % len(BAD_UTF8)])
                        args += ["-f", p]
                    else:
                        stdin = BAD_UTF8[(h >> 10) % len(BAD_UTF8)]
                else:
                    text = wire.unval([i])[0]
                    if h & 4:
                        p = os.path.join(tmp, "in-%d.json" % n)
                        open(p, "w", encoding="utf8").write(text)
                        args += ["--filename" if h & 8 else "-f", p]
                    else:
                        stdin = text.encode("utf8")
                if e == "_":
                    v = (h >> 8) % 3
                    if v == 0:
                        args += ["-e", os.path.join(tmp, "no-such-expr-%d" % n)]
                    elif v == 1:
                        args += ["-e", tmp]
                    else:
                        p = os.path.join(tmp, "bad-%d.jmespath" % n)
                        open(p, "wb").write([b"'\xff'", b"a.\xffb", b'"\xc3"', b"`\"\xed\xa0\x80\"`", b"a\n\xfe"][(h >> 12) % 5])
                        args += ["-e", p]
                else:
                    etext = wire.unval([e])[0]
                    if (h & 16) or etext.startswith("-") or etext == "":
                        p = os.path.join(tmp, "e-%d.jmespath" % n)
                        open(p, "w", encoding="utf8").write(etext)
                        args += ["--expr-file" if h & 32 else "-e", p]
                    else:
                        args.append(etext)
                try:
                    pr = subprocess.run(args, input=stdin, stdout=subprocess.PIPE, stderr=subprocess.PIPE, timeout=20)
                    so = pr.stdout.decode("utf8", "replace")
                    if "a" in flags and pr.returncode == 0 and e != "_":
                        exp = asts.get(e)
                        if exp is None:
                            exp = vlib.run_exe(exe, ["astdebug " + e])[0]
                            asts[e] = exp
                        so_t = "AST" if exp == "OK " + wire.s(so) else wire.s(so)
                    else:
                        so_t = wire.s(so)
                    out.append("EXIT %d OUT %s ERR %s" % (pr.returncode if pr.returncode >= 0 else 128 - pr.returncode, so_t, "t" if pr.stderr else "f"))
                except subprocess.TimeoutExpired:
                    out.append("TIMEOUT")
        finally:
            shutil.rmtree(tmp, ignore_errors=True)
        return out

    def nontrivial(self, case, mobs):
        return mobs.startswith("EXIT 0")
