"""C16: with the sync feature, compiled expressions are safely shareable across threads."""
import framework
import gen
import vlib
import wire

EXPRS = ["a", "a[*].b", "sort_by(a, &b)[*].b", "length(a)", "a[?b > `1`] | [0]", "(" * 120 + "a.b[0]" + ")" * 120, "abs(a)", "nope(a)", "a ==",
         "{x: a, y: keys(@)}", "map(&b, a)", "join(',', a[*].c)", "a[::2]", "max_by(a, &b).b", "to_string(@)", "'x' | @", "!" * 60 + "a", "[[[[[a]]]]]",
         "a.b.c.d.e.f.g.h", "merge(@, `{\"k\": 1}`)"]
DOCS = [{"a": [{"b": 2, "c": "x"}, {"b": 1, "c": "y"}, {"b": 3, "c": "z"}]}, {"a": {"b": [1, 2, 3]}}, {"a": -3}, None, {"a": [1, 2, 3, 4, 5]}]


class P(framework.Prop):
    id = "C16"
    features = ("sync",)
    impl_timeout = 120
    rule = ("harness built with --features sync (the build itself instantiates Send+Sync for Expression, Runtime, Variable, Rcvar, "
            "JmespathError and Ast): threads cases = 4..16 threads released together by a barrier, each compiling through the shared default "
            "runtime (the first cases of a run start fresh processes, so the lazy initialisation is part of the race) and searching a shared "
            "compiled expression on a shared input value for 20..200 rounds; every observation of every thread must equal the sequential one "
            "(= the model's). Non-trivial = the sequential result is a value")
    assumptions = ["memory-model data races, Arc and Once internals are Rust/std behaviour outside the model (partial)",
                   "thread schedules are whatever the OS produces during the run; the model theorem covers all schedules"]

    def cases(self, rng, tier):
        out = []
        N = 60 if tier == "quick" else 2000
        for k in range(N):
            e = EXPRS[k % len(EXPRS)] if k < 2 * len(EXPRS) else gen.render(rng, gen.gen_expr(rng, 3))
            d = rng.choice(DOCS)
            out.append("threads %d %d %s %s" % (rng.choice([4, 8, 16]), rng.choice([20, 50, 200]), wire.s(e), wire.val(d)))
        self.fresh = 24 if tier == "quick" else 200
        return out

    def run_impl(self, exe, lines):
        out = []
        for l in lines[:self.fresh]:
            out += vlib.run_exe(exe, [l], timeout=120)          # a fresh process: first use of the default runtime under contention
        out += vlib.run_exe(exe, lines[self.fresh:], timeout=600)
        return out
