"""C06: builtins enforce their signatures (decision table through Function::evaluate and expression strings)."""
import itertools

import framework
import gen
import wire

F = lambda k: "Field " + wire.s(k)

CLASSES = {
    "null": None, "bool": True, "number": 1.5, "int": 3, "string": "ab", "empty_array": [], "numbers": [1, 2.5, -3], "strings": ["a", "b"],
    "mixed": [1, "a"], "mixed_first": ["a", 1, 2], "mixed_last": [1, 2, "a"], "single_string": ["a"], "single_number": [1], "single_null": [None],
    "nested": [[1]], "object": {"a": 1}, "empty_object": {}, "expref": ("&", F("a")), "expref_lit": ("&", "Literal u1"),
    "objects": [{"a": 1}, {"a": 2}], "objects_mixed_keys": [{"a": 1}, {"a": "x"}], "objects_bad_keys": [{"a": None}, {"a": 1}],
}

BUILTINS = {"abs": 1, "avg": 1, "ceil": 1, "contains": 2, "ends_with": 2, "floor": 1, "join": 2, "keys": 1, "length": 1, "map": 2, "max": 1,
            "max_by": 2, "merge": 1, "min": 1, "min_by": 2, "not_null": 1, "reverse": 1, "sort": 1, "sort_by": 2, "starts_with": 2, "sum": 1,
            "to_array": 1, "to_number": 1, "to_string": 1, "type": 1, "values": 1}


def fn(name, args, off=0):
    return "fn %d %s %s" % (off, wire.s(name), " ".join(wire.val(a) for a in args))


class P(framework.Prop):
    id = "C06"
    rule = ("decision table: 26 builtins x argument counts 0..declared+2 x type classes per position {null, bool, number, string, arrays "
            "(empty, numbers, strings, mixed with the odd element first/last, singletons, nested), objects, exprefs}; quick: all cells for "
            "arity<=1, all pairs for the first two positions and a seeded sample beyond; thorough: all cells up to declared+2; also unknown "
            "names and calls through expression strings; non-trivial = the call is accepted")

    def spec_line(self, case):
        """the specification's verdict on a direct call, from Spec/SigSpec.v's table alone"""
        if case.startswith("fn "):
            return "specfn " + case[len("fn "):]
        return None

    def spec_equal(self, sobs, iobs):
        s = sobs.split(" ")
        i = iobs.split(" ")
        if s[:1] != ["SPEC"]:
            return False
        v = s[1]
        if v == "unknown-function":
            return iobs.startswith("ERR nofunction")
        kind = i[2] if i[:2] == ["ERR", "runtime"] else None
        if v in ("not-enough", "too-many"):
            # ERR runtime <kind> off line col expected actual
            return kind == v and i[6:8] == s[2:4]
        if v == "invalid-type":
            # ERR runtime invalid-type off line col "expected "actual position
            return kind == v and i[8:9] == s[2:3]
        if v == "ok":
            return not iobs.startswith("ERR nofunction") and kind not in ("not-enough", "too-many", "invalid-type")
        return False

    def cases(self, rng, tier):
        out = []
        names = list(CLASSES)
        for f, ar in BUILTINS.items():
            out.append(fn(f, []))
            for a in names:
                out.append(fn(f, [CLASSES[a]]))
            for a, b in itertools.product(names, names):
                if ar >= 2 or f in ("merge", "not_null") or rng.random() < (0.15 if tier == "quick" else 1.0):
                    out.append(fn(f, [CLASSES[a], CLASSES[b]], off=rng.randint(0, 30)))
            K = 40 if tier == "quick" else 2000
            for _ in range(K):
                n = rng.randint(3, ar + 2) if ar + 2 >= 3 else 3
                out.append(fn(f, [CLASSES[rng.choice(names)] for _ in range(n)]))
            if f in ("merge", "not_null"):
                for _ in range(K):
                    n = rng.randint(3, 5)
                    args = [CLASSES["object"]] * n if f == "merge" else [None] * n
                    args[rng.randrange(n)] = CLASSES[rng.choice(names)]
                    out.append(fn(f, args))
        for nm in ["nope", "Abs", "abs ", "", "length2", "sort_By"]:
            out.append(fn(nm, [1]))
        M = 400 if tier == "quick" else 20000
        for _ in range(M):
            toks = gen.gen_call(rng, 1)
            out.append("search %s %s" % (wire.s(gen.render(rng, toks, 1.0)), wire.val(gen.rand_doc(rng, 2))))
        return out

    def nontrivial(self, case, mobs):
        return mobs.startswith("OK")
