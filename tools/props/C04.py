"""C04: operators bind by the documented precedence; projections extend as specified (surface: parse + search)."""
import itertools

import framework
import gen
import wire

INFIX = ["|", "||", "&&", "==", "!=", "<", "<=", ">", ">=", "."]
POSTFIX = ["[0]", "[-1]", "[*]", "[]", "[?c]", "[1:]", "[::2]", ".*", ".b", ".[a,b]", ".{x:a}", ".f(@)"]
PREFIX = ["!", ""]
ATOMS = ["a", "b", "c", "@", "`1`", "'s'", "*", "[*]", "[]", "[0]", "[?a]", "f(a)", "(a)", "[a,b]", "{k:a}"]

DOC = {"a": [{"b": 1, "c": True, "a": [1, 2]}, {"b": 2, "c": False, "a": []}, {"c": None}], "b": {"a": 1, "b": [1, [2, 3]], "c": "x"}, "c": 0,
       "f": 1, "k": "k", "s": "s"}


class P(framework.Prop):
    id = "C04"
    rule = ("parse and search cases: every ordered pair of infix operators and every (prefix, infix, postfix) combination around atomic "
            "operands (exhaustive), ordered triples of infix operators (sampled in quick, exhaustive in thorough), postfix chains of length "
            "2..3 followed by every infix operator, the same shapes nested in brackets/parentheses/arguments, plus seeded random chains; "
            "non-trivial = accepted sentence")

    def spec_line(self, case):
        """the reference parser decides sentencehood and the tree"""
        if case.startswith("parse "):
            return "refparse " + case[len("parse "):]
        return None

    def spec_equal(self, sobs, iobs):
        if sobs.startswith("ERR parse") and iobs.startswith("ERR parse"):
            return True
        return framework.canon(sobs) == framework.canon(iobs)

    def cases(self, rng, tier):
        exprs = []
        for o1, o2 in itertools.product(INFIX, INFIX):
            for pre in PREFIX:
                exprs.append("%sa %s b %s c" % (pre, o1, o2))
                exprs.append("a %s %sb %s c" % (o1, pre, o2))
            for p in POSTFIX:
                exprs.append("a%s %s b %s c" % (p, o1, o2))
                exprs.append("a %s b%s %s c" % (o1, p, o2))
                exprs.append("a %s b %s c%s" % (o1, o2, p))
        for p1, p2 in itertools.product(POSTFIX, POSTFIX):
            exprs.append("a%s%s" % (p1, p2))
            exprs.append("!a%s%s" % (p1, p2))
            for o in INFIX:
                exprs.append("a%s%s %s b" % (p1, p2, o))
                exprs.append("a %s b%s%s" % (o, p1, p2))
        for at, o, p in itertools.product(ATOMS, INFIX, POSTFIX):
            exprs.append("%s %s b%s" % (at, o, p))
            exprs.append("b%s %s %s" % (p, o, at))
        # what follows a projection extends its right-hand side: chains of three postfix forms (exhaustive) and of four to five (sampled)
        for p1, p2, p3 in itertools.product(POSTFIX, POSTFIX, POSTFIX):
            exprs.append("a%s%s%s" % (p1, p2, p3))
        quads = list(itertools.product(POSTFIX, POSTFIX, POSTFIX, POSTFIX))
        for q in (rng.sample(quads, 2500) if tier == "quick" else quads):
            exprs.append("a" + "".join(q))
            if rng.random() < 0.3:
                exprs.append("a" + "".join(q) + rng.choice(POSTFIX) + " " + rng.choice(INFIX) + " b" + rng.choice(POSTFIX))
        for at, p1, p2 in itertools.product(ATOMS, POSTFIX, POSTFIX):
            exprs.append("%s%s%s" % (at, p1, p2))
            exprs.append("!%s%s%s | &%s%s" % (at, p1, p2, at, p1) if rng.random() < 0.1 else "%s%s%s[?c]%s" % (at, p1, p2, rng.choice(POSTFIX)))
        for pre in ["&", "f(&", "sort_by(a, &", "[&"]:
            close = {"&": "", "f(&": ")", "sort_by(a, &": ")", "[&": "]"}[pre]
            for o in INFIX:
                exprs.append("%sa %s b%s" % (pre, o, close))
                exprs.append("%sa%s %s b%s" % (pre, rng.choice(POSTFIX), o, close))
        triples = list(itertools.product(INFIX, INFIX, INFIX))
        if tier == "quick":
            triples = rng.sample(triples, 250)
        for o1, o2, o3 in triples:
            exprs.append("a %s b %s c %s a" % (o1, o2, o3))
            exprs.append("a[*] %s b[] %s !c %s a[?b]" % (o1, o2, o3))
        N = 1500 if tier == "quick" else 80000
        for _ in range(N):
            n = rng.randint(2, 6)
            parts = []
            for i in range(n):
                a = rng.choice(PREFIX) + rng.choice(ATOMS)
                for _ in range(rng.choice([0, 0, 1, 2, 3, 4])):
                    a += rng.choice(POSTFIX)
                parts.append(a)
                if i < n - 1:
                    parts.append(rng.choice(INFIX))
            e = " ".join(parts)
            w = rng.random()
            if w < 0.15:
                e = "[%s, a]" % e
            elif w < 0.3:
                e = "f(%s, &%s)" % (e, e)
            elif w < 0.4:
                e = "x[?%s].y" % e
            elif w < 0.5:
                e = "(%s)[0] | {k: %s}" % (e, e)
            exprs.append(e)
        out = []
        d = wire.val(DOC)
        for e in dict.fromkeys(exprs):
            out.append("parse " + wire.s(e))
            out.append("search %s %s" % (wire.s(e), d))
        return out

    def nontrivial(self, case, mobs):
        return mobs.startswith("OK") and mobs != "OK n"
