"""C11: evaluation is compositional (laws evaluated on the implementation itself + model correspondence)."""
import framework
import gen
import vlib
import wire


def ok_val(obs):
    return obs[3:] if obs.startswith("OK ") else None


def split_array(valtext):
    """wire text of an array -> list of element wire texts, or None"""
    t = valtext.split(" ")
    if t[0] != "[":
        return None
    out = []
    i = 1
    while t[i] != "]":
        j = skip(t, i)
        out.append(" ".join(t[i:j]))
        i = j
    return out


def skip(t, i):
    if t[i] in ("[", "{"):
        close = "]" if t[i] == "[" else "}"
        i += 1
        while t[i] != close:
            if close == "}":
                i += 1      # key
            i = skip(t, i)
        return i + 1
    if t[i] == "&":
        raise ValueError("expref")
    return i + 1


def fn_ast(rng, depth):
    name = rng.choice(["length", "keys", "values", "sort", "to_array", "type", "not_null", "abs", "to_string", "reverse"])
    return "Fn %d %s [ %s ]" % (rng.randint(0, 9), wire.s(name), gen.rand_ast(rng, depth))


def sub(rng, depth):
    return fn_ast(rng, depth - 1) if rng.random() < 0.12 else gen.rand_ast(rng, depth)


class P(framework.Prop):
    id = "C11"
    rule = ("metamorphic laws on the implementation: for seeded random sub-trees L, R, members e_i (core forms plus builtin calls) and "
            "documents d: Subexpr(L,R) on d vs R on (L on d); Projection(L,R) vs per-element R, order kept, nulls dropped; filter vs "
            "per-element predicate; MultiList/MultiHash vs member results; Not/And/Or vs truth table; plus the same compound trees through the "
            "model correspondence. Non-trivial = compound result is neither null nor an error")

    def cases(self, rng, tier):
        N = 500 if tier == "quick" else 30000
        self.trials = []
        out = []
        for _ in range(N):
            d = wire.val(gen.rand_doc(rng, 3))
            L, R = sub(rng, 3), sub(rng, 3)
            if rng.random() < 0.2:
                R = "Identity"
            if rng.random() < 0.25:
                L = rng.choice(["Identity", "Field " + wire.s("a"), "Flatten Identity"])
                d = wire.val([gen.rand_doc(rng, 2) if rng.random() < 0.6 else None for _ in range(rng.randint(0, 5))]
                             if rng.random() < 0.6 else {"a": [None, 1, [None, 2], None, {"b": None}]})
            kind = rng.choice(["pipe", "proj", "filter", "mlist", "mhash", "not", "and", "or", "flatproj", "sliceproj", "valproj"])
            es = [sub(rng, 2) for _ in range(rng.randint(1, 3))]
            ks = [rng.choice(gen.KEYS) for _ in es]
            if kind == "pipe":
                comp = "Subexpr %s %s" % (L, R)
            elif kind == "proj":
                comp = "Proj %s %s" % (L, R)
            elif kind == "flatproj":
                comp = "Proj Flatten %s %s" % (L, R)
            elif kind == "valproj":
                comp = "Proj Values %s %s" % (L, R)
            elif kind == "sliceproj":
                L = "Slice 0 %s %s %d" % (rng.choice(["_", "1", "-2"]), rng.choice(["_", "3", "-1"]), rng.choice([1, 2, -1]))
                comp = "Proj %s %s" % (L, R)
            elif kind == "filter":
                comp = "Proj %s Cond %s %s" % (L, R, es[0])
            elif kind == "mlist":
                comp = "MList [ %s ]" % " ".join(es)
            elif kind == "mhash":
                comp = "MHash { %s }" % " ".join("%s %s" % (wire.s(k), e) for k, e in zip(ks, es))
            elif kind == "not":
                comp = "Not %s" % L
            elif kind == "and":
                comp = "And %s %s" % (L, R)
            else:
                comp = "Or %s %s" % (L, R)
            self.trials.append((kind, L, R, es, ks, d, comp))
            out.append('evalast " %s %s' % (comp, d))
        # the same laws on expression texts (the parser must not rewrite a compound into something that evaluates differently)
        self.ttrials = []
        atoms = ["a", "b", "c", "@", "`1`", "`null`", "`\"x\"`", "'s'", "`[]`", "`false`", "a.b", "a[0]", "b[*]", "length(@)", "type(a)"]
        for _ in range(500 if tier == "quick" else 30000):
            def piece():
                r = rng.random()
                if r < 0.35:
                    return "%s %s %s" % (rng.choice(atoms), rng.choice(["<", "<=", ">", ">=", "==", "!="]), rng.choice(atoms))
                if r < 0.5:
                    return rng.choice(atoms)
                return gen.render(rng, gen.gen_expr(rng, rng.choice([1, 2, 3])), 1.0)
            X, Y = piece(), piece()
            kind = rng.choice(["not", "not", "and", "or", "pipe", "mlist", "notnot"])
            comp = {"not": "!(%s)" % X, "notnot": "!!(%s)" % X, "and": "(%s) && (%s)" % (X, Y), "or": "(%s) || (%s)" % (X, Y),
                    "pipe": "(%s) | (%s)" % (X, Y), "mlist": "[(%s), (%s)]" % (X, Y)}[kind]
            d = wire.val(rng.choice([gen.rand_doc(rng, 3), {"a": rng.choice([1, "x", None, [1, 2], {"b": 2}, True]), "b": rng.choice([2, "y", [3, None], None, 0.5]), "c": rng.choice(["s", 3, None])}]))
            self.ttrials.append((kind, X, Y, d, comp))
            out.append("search %s %s" % (wire.s(comp), d))
        # a part without a result (a runtime error) leaves the whole without one: predicates, members and operands that fail on some element only
        hetero = [[1, "abc", "de", [1, 2, 3], {"a": 1}], ["abc", 1], [[1], "x", None], [None, None], [{"a": "s"}, {"a": 1}, {}], ["a", "b"], [1, 2], [], [[], {}, ""]]
        preds = ["length(@) > `2`", "abs(@) > `0`", "starts_with(@, 'a')", "sort(@)", "keys(@)", "max(@) == `1`", "join(',', @) == 'x'", "nosuch(@)", "length(a) == `1`",
                 "abs(a)", "ends_with(@, `1`)", "contains(@, 'a')", "to_number(@) > `0`", "type(@) == 'string' && length(@) > `2`", "type(@) != 'number' || abs(@) > `0`"]
        shapes = ["[?%s]", "a[?%s]", "[?%s].x", "[?%s] | [0]", "[?!(%s)]", "[?(%s) || `true`]", "[?`true` || (%s)]", "[?`false` && (%s)]", "[?(%s) && `true`]", "[*].[%s]",
                  "[*].{k: %s}", "[].(%s)", "[?@ != `null`] | [?%s]", "[::-1][?%s]", "[0:2][?%s]", "*[?%s]", "[?%s][?%s]"]
        for h in hetero:
            for pr in preds:
                for sh in (shapes if tier != "quick" else rng.sample(shapes, 6)):
                    e = sh % ((pr,) * sh.count("%s"))
                    doc = {"a": h} if e.startswith("a[") else ({"p": h, "q": h[::-1]} if e.startswith("*") else h)
                    out.append("search %s %s" % (wire.s(e), wire.val(doc)))
        # multi-select hashes with a repeated key: the record of the members' results in order (the last one stays), every member evaluated
        for ks in [("a", "a"), ("a", "b", "a"), ("a", '"a"'), ('"a"', "a", "b"), ("k", "k", "k")]:
            for vs in [("foo", "bar"), ("bar", "foo"), ("`1`", "nosuch(@)"), ("nosuch(@)", "`1`"), ("abs(foo)", "bar"), ("foo", "abs(bar)"), ("missing", "foo"), ("foo", "missing")]:
                e = "{" + ", ".join("%s: %s" % (k, vs[i % len(vs)]) for i, k in enumerate(ks)) + "}"
                for doc in [{"foo": 1, "bar": [2, 3]}, {"foo": "s", "bar": None}, None]:
                    out.append("search %s %s" % (wire.s(e), wire.val(doc)))
                    out.append("search %s %s" % (wire.s("[" + e + "][0]"), wire.val(doc)))
        consts = ["`true`", "`false`", "`null`", "`[]`", "`{}`", "`\"\"`", "`0`", "`1`", "''", "'x'", "`[0]`", "@", "a", "missing"]
        cdocs = [wire.val(v) for v in [{"a": []}, {"a": 0}, {"a": "x"}, {"a": None}, {"a": False}, {"a": True}, {"a": {}}, None, [], [1]]]
        for X in consts:
            for Y in consts:
                for kind in ("and", "or"):
                    for paren in (True, False):
                        comp = ("(%s) %s (%s)" if paren else "%s %s %s") % (X, "&&" if kind == "and" else "||", Y)
                        for d in (cdocs if tier != "quick" else rng.sample(cdocs, 3)):
                            self.ttrials.append((kind, X, Y, d, comp))
                            out.append("search %s %s" % (wire.s(comp), d))
        return out

    def extra(self, ctx):
        exe = ctx["bins"][0][1]
        ev = lambda a, d: 'evalast " %s %s' % (a, d)
        # phase 1: compound and first-level parts
        p1 = []
        for kind, L, R, es, ks, d, comp in self.trials:
            p1.append(ev(comp, d))
            if kind == "flatproj":
                p1.append(ev("Flatten " + L, d))
            elif kind == "valproj":
                p1.append(ev("Values " + L, d))
            else:
                p1.append(ev(L, d))
        o1 = vlib.run_exe(exe, p1)
        # phase 2: dependent evaluations
        p2 = []
        plan = []
        for k, (kind, L, R, es, ks, d, comp) in enumerate(self.trials):
            cobs, lobs = o1[2 * k], o1[2 * k + 1]
            lv = ok_val(lobs)
            start = len(p2)
            if kind == "pipe":
                if lv is not None and "&" not in lv.split(" "):
                    p2.append(ev(R, lv))
            elif kind in ("proj", "flatproj", "valproj", "sliceproj", "filter"):
                elems = None
                if lv is not None and "&" not in lv.split(" "):
                    elems = split_array(lv)
                if elems is not None:
                    for e in elems:
                        if kind == "filter":
                            p2.append(ev(R, e))
                            p2.append(ev(es[0], e))
                        else:
                            p2.append(ev(R, e))
                plan.append((k, start, len(p2), elems))
                continue
            elif kind in ("mlist", "mhash"):
                for e in es:
                    p2.append(ev(e, d))
            elif kind in ("and", "or"):
                p2.append(ev(R, d))
                p2.append("truthy " + lv if lv is not None and "&" not in lv.split(" ") else "truthy n")
            elif kind == "not":
                p2.append("truthy " + lv if lv is not None and "&" not in lv.split(" ") else "truthy n")
            plan.append((k, start, len(p2), None))
        o2 = vlib.run_exe(exe, p2)
        # filters need the truthiness of each predicate result
        p3 = []
        for k, a, b, elems in plan:
            if self.trials[k][0] == "filter" and elems is not None:
                for j in range(len(elems)):
                    pv = ok_val(o2[a + 2 * j])
                    p3.append("truthy " + (pv if pv is not None and "&" not in pv.split(" ") else "n"))
        o3 = vlib.run_exe(exe, p3)
        i3 = 0
        out = []
        checked = 0
        for k, a, b, elems in plan:
            kind, L, R, es, ks, d, comp = self.trials[k]
            cobs, lobs = o1[2 * k], o1[2 * k + 1]
            lv = ok_val(lobs)
            exp = None
            if lv is not None and "&" in lv.split(" "):
                if kind == "filter" and elems is not None:
                    i3 += len(elems)
                continue
            if lv is None and kind not in ("mlist", "mhash"):
                exp = lobs                       # the error of the first part is the error of the compound
            elif kind == "pipe":
                exp = o2[a]
            elif kind in ("proj", "flatproj", "valproj", "sliceproj"):
                if elems is None:
                    exp = "OK n"
                else:
                    rs = o2[a:b]
                    bad = [r for r in rs if not r.startswith("OK")]
                    exp = bad[0] if bad else "OK " + " ".join(["["] + [r[3:] for r in rs if r != "OK n"] + ["]"])
            elif kind == "filter":
                if elems is None:
                    exp = "OK n"
                else:
                    keep = []
                    err = None
                    for j in range(len(elems)):
                        pr, tr = o2[a + 2 * j], o2[a + 2 * j + 1]
                        t = o3[i3]
                        i3 += 1
                        if err:
                            continue
                        if not pr.startswith("OK"):
                            err = pr
                        elif t == "OK t":
                            if not tr.startswith("OK"):
                                err = tr
                            elif tr != "OK n":
                                keep.append(tr[3:])
                    exp = err if err else "OK " + " ".join(["["] + keep + ["]"])
            elif kind in ("mlist", "mhash"):
                if d == "n":
                    exp = "OK n"
                else:
                    rs = o2[a:b]
                    bad = [r for r in rs if not r.startswith("OK")]
                    if bad:
                        exp = bad[0]
                    elif kind == "mlist":
                        exp = "OK " + " ".join(["["] + [r[3:] for r in rs] + ["]"])
                    else:
                        rec = {}
                        for kk, r in zip(ks, rs):
                            rec[kk] = r[3:]
                        items = sorted(rec.items(), key=lambda kv: [ord(c) for c in kv[0]])
                        exp = "OK " + " ".join(["{"] + [wire.s(kk) + " " + v for kk, v in items] + ["}"])
            elif kind == "not":
                exp = "OK f" if o2[a] == "OK t" else "OK t"
            elif kind == "and":
                exp = o2[a] if o2[a + 1] == "OK t" else lobs
            elif kind == "or":
                exp = lobs if o2[a + 1] == "OK t" else o2[a]
            checked += 1
            if exp is not None and exp != cobs:
                # runtime errors inside different parts may carry different cursor positions: compare classes only
                if exp.startswith("ERR") and cobs.startswith("ERR") and exp.split(" ")[:3] == cobs.split(" ")[:3]:
                    continue
                out.append(("violation", {"case": ev(comp, d), "expected": exp, "observed": cobs,
                                          "detail": "compositional law (%s) fails on the implementation: recombined parts give %s, compound gives %s" % (kind, exp, cobs)}))
        out.append(("count", {"name": "laws_checked_on_impl", "n": checked}))
        # textual laws
        falsy = lambda v: v in ("n", "f", '"', "[ ]", "{ }")
        sr = lambda e, d: "search %s %s" % (wire.s(e), d)
        t1 = []
        for kind, X, Y, d, comp in self.ttrials:
            t1 += [sr(comp, d), sr(X, d), sr(Y, d)]
        ot = vlib.run_exe(exe, t1)
        t2, idx = [], {}
        for k, (kind, X, Y, d, comp) in enumerate(self.ttrials):
            xv = ok_val(ot[3 * k + 1])
            if kind == "pipe" and xv is not None and "&" not in xv.split(" "):
                idx[k] = len(t2)
                t2.append(sr(Y, xv))
        o2t = vlib.run_exe(exe, t2)
        tchecked = 0
        for k, (kind, X, Y, d, comp) in enumerate(self.ttrials):
            cobs, xobs, yobs = ot[3 * k:3 * k + 3]
            xv = ok_val(xobs)
            if xobs.startswith("ERR parse") or (kind in ("and", "or", "pipe", "mlist") and yobs.startswith("ERR parse")):
                continue
            if xv is not None and "&" in xv.split(" "):
                continue
            exp = None
            if kind == "mlist" and d == "n":
                exp = "OK n"          # a multi-select on null is null: the members are not evaluated
            elif xv is None:
                exp = xobs
            elif kind == "not":
                exp = "OK t" if falsy(xv) else "OK f"
            elif kind == "notnot":
                exp = "OK f" if falsy(xv) else "OK t"
            elif kind == "and":
                exp = xobs if falsy(xv) else yobs
            elif kind == "or":
                exp = yobs if falsy(xv) else xobs
            elif kind == "pipe":
                exp = o2t[idx[k]] if k in idx else None
            elif kind == "mlist":
                yv = ok_val(yobs)
                if yv is None:
                    exp = yobs
                elif "&" in yv.split(" "):
                    exp = None
                else:
                    exp = "OK n" if d == "n" else "OK [ %s %s ]" % (xv, yv)
            if exp is None:
                continue
            tchecked += 1
            if exp != cobs:
                if exp.startswith("ERR") and cobs.startswith("ERR") and exp.split(" ")[:3] == cobs.split(" ")[:3]:
                    continue
                out.append(("violation", {"case": sr(comp, d), "expected": exp, "observed": cobs,
                                          "detail": "compositional law (%s, on the expression text) fails on the implementation: parts %s / %s recombine to %s, the compound %s gives %s" % (kind, xobs, yobs, exp, comp, cobs)}))
        out.append(("count", {"name": "textual_laws_checked_on_impl", "n": tchecked}))
        return out
