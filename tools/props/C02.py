"""C02: every builtin computes the value the specification defines (surface: Function::evaluate and f(...) strings)."""
import framework
import gen
import wire

F = lambda k: "Field " + wire.s(k)


def num_array(rng, n=None):
    n = rng.choice([0, 1, 2, 3, 5, 8, 25, 40]) if n is None else n
    pool = [gen.rand_number(rng) for _ in range(max(1, n // 3 + 1))]
    return [rng.choice(pool) if rng.random() < 0.5 else gen.rand_number(rng) for _ in range(n)]


def str_array(rng, n=None):
    n = rng.choice([0, 1, 2, 3, 5, 8, 25]) if n is None else n
    return [gen.rand_string(rng, 3) for _ in range(n)]


def obj_array(rng):
    n = rng.choice([0, 1, 2, 3, 5, 8, 24, 33])
    kind = rng.choice(["num", "str", "mixed"])
    out = []
    for i in range(n):
        if kind == "num":
            k = rng.choice([1, 2, 2.0, 3, 1.0, -1, 0.5])
        elif kind == "str":
            k = rng.choice(["a", "b", "", "é", "ab"])
        else:
            k = rng.choice([1, "a", None, 2.0, [1]])
        out.append({"k": k, "i": i, "n": {"k": k}})
    return out


def fn(name, *args):
    return "fn 0 %s %s" % (wire.s(name), " ".join(wire.val(a) for a in args))


class P(framework.Prop):
    id = "C02"
    rule = ("fn cases: for each of the 26 builtins, seeded well-typed argument tuples (arrays of length 0..40 with duplicate keys and "
            "int/float spellings of equal numbers, strings over several planes, nested objects, exprefs over fields/sub-fields/literals) "
            "evaluated through Function::evaluate; search cases: calls nested in projections and other calls; non-trivial = non-null result")

    def cases(self, rng, tier):
        out = []
        N = 150 if tier == "quick" else 6000
        for _ in range(N):
            x = gen.rand_number(rng)
            out += [fn("abs", x), fn("ceil", x), fn("floor", x), fn("to_string", x), fn("to_number", x), fn("type", x)]
            na, sa, oa = num_array(rng), str_array(rng), obj_array(rng)
            for f in ("avg", "sum", "max", "min", "sort", "reverse", "length", "to_array", "to_string"):
                out.append(fn(f, na))
            for f in ("max", "min", "sort", "reverse", "length"):
                out.append(fn(f, sa))
            out.append(fn("join", gen.rand_string(rng, 2), sa))
            key = rng.choice([F("k"), "Subexpr %s %s" % (F("n"), F("k")), F("i"), F("missing"), "Identity"])
            for f in ("sort_by", "max_by", "min_by"):
                out.append(fn(f, oa, ("&", key)))
            out.append(fn("map", ("&", key), oa))
            out.append(fn("map", ("&", gen.rand_ast(rng, 2)), gen.rand_doc(rng, 2) if rng.random() < 0.3 else oa))
            s1, s2 = gen.rand_string(rng, 5), gen.rand_string(rng, 2)
            out += [fn("contains", s1, s2), fn("starts_with", s1, s2), fn("ends_with", s1, s2), fn("contains", s1 + s2 + s1, s2),
                    fn("starts_with", s2 + s1, s2), fn("ends_with", s1 + s2, s2), fn("length", s1), fn("reverse", s1), fn("to_string", s1)]
            d = gen.rand_doc(rng, 3)
            out += [fn("contains", na, rng.choice(na) if na else 1), fn("contains", [d, 1, "a"], d), fn("type", d), fn("to_array", d),
                    fn("to_string", d), fn("not_null", None, d, 1), fn("not_null", None, None)]
            o1 = {k: gen.rand_doc(rng, 1) for k in rng.sample(gen.KEYS, rng.randint(0, 4))}
            o2 = {k: gen.rand_doc(rng, 1) for k in rng.sample(gen.KEYS, rng.randint(0, 4))}
            out += [fn("merge", o1), fn("merge", o1, o2), fn("merge", o2, o1, o2), fn("keys", o1), fn("values", o1), fn("length", o1)]
            t = rng.choice(["1", "-1.5", "1e3", " 2 ", "abc", "", "0x10", "1.", "01", "-0", "1e400", "12345678901234567890", "[1]", "true",
                            "null", "\"3\"", "1 2", "3.25", "1E-2", "-", "+1", ".5", "9007199254740993", "0.1", "123456789.123456789123"])
            out.append(fn("to_number", t))
        # strings as sequences of code points: combining marks, joiners, variation selectors, right-to-left and astral characters, lone
        # surrogates cannot occur; reverse/length/contains/starts_with/ends_with/join/sort/max/min treat every code point alike
        UNI = ["a", "e", "\u0301", "\u0308", "\u200d", "\ufe0f", "\u05d0", "\u0627", "\U0001f468", "\U0001f469", "\U0001f3fd", "\u1ab0", "\u20d7", "\ufe20",
               "\u00e9", "\u0065\u0301", "\u1100\u1161", "\uac00", "\u0e33", "\u2028", "\ufeff", "\u0000", "\x7f", "\ud7ff", "\ue000", "\U0010ffff", "z"]
        for _ in range(120 if tier == "quick" else 6000):
            u1 = "".join(rng.choice(UNI) for _ in range(rng.randint(1, 6)))
            u2 = "".join(rng.choice(UNI) for _ in range(rng.randint(1, 2)))
            ua = ["".join(rng.choice(UNI) for _ in range(rng.randint(0, 3))) for _ in range(rng.randint(0, 5))]
            out += [fn("reverse", u1), fn("length", u1), fn("contains", u1, u2), fn("starts_with", u1, u2), fn("ends_with", u1, u2), fn("ends_with", u1 + u2, u2),
                    fn("starts_with", u2 + u1, u2), fn("join", u2, ua), fn("sort", ua), fn("max", ua), fn("min", ua), fn("reverse", ua), fn("to_string", u1),
                    fn("to_number", u1)]
        # ceil/floor/abs far outside the 64-bit integer range, at its edges and on integers stored as such
        for x in [1e19, -1e19, 4e19, 1.5e300, -1.5e300, 2**64 - 1, 2**63, -2**63, 2**63 - 1, 9.223372036854775e18, -9.223372036854777e18, 2**53 + 1, -(2**53) - 1,
                  1.8446744073709552e19, 0.5, -0.5, -0.0, 1e-320, 123456789012345680000.0]:
            out += [fn("ceil", x), fn("floor", x), fn("abs", x)]
        # the expression reference is evaluated against every element, null and falsy elements included
        arrs = [[1, None, "a"], [None], [None, None, 2], [[], None, {}, "", False, 0], [{"k": None}, None, {"k": 1}], [[None], None]]
        for _ in range(4 if tier == "quick" else 200):
            arrs.append([rng.choice([None, None, 1, "s", [], {}, False, [None], {"k": None}]) for _ in range(rng.randint(1, 6))])
        for arr in arrs:
            for e in ["map(&type(@), @)", "map(&`1`, @)", "map(&(@ == `null`), @)", "map(&to_string(@), @)", "map(&not_null(@, `0`), @)", "map(&@, @)",
                      "map(&[@], @)", "map(&{v: @}, @)", "map(&!@, @)", "map(&(@ || 'd'), @)", "map(&(@ && 'd'), @)", "map(&length(to_array(@)), @)",
                      "map(&k, @)", "length(map(&k, @))", "map(&type(k), @)", "[*].type(@)", "[].type(@)", "map(&type(@), @) | length(@)",
                      "sort_by(@, &type(@))", "max_by(@, &to_string(@))", "min_by(@, &length(to_string(@)))", "sort_by(@, &to_string(@)) | map(&type(@), @)"]:
                out.append("search %s %s" % (wire.s(e), wire.val(arr)))
        # nested in expressions
        M = 300 if tier == "quick" else 20000
        for _ in range(M):
            toks = gen.gen_call(rng, 2)
            if rng.random() < 0.5:
                toks = gen.gen_expr(rng, 1) + ["[*]", "."] + toks if rng.random() < 0.5 else toks + ["|"] + gen.gen_call(rng, 1)
            out.append("search %s %s" % (wire.s(gen.render(rng, toks, 1.0)), wire.val(gen.rand_doc(rng, 3))))
        return out
